#!/bin/bash
# runs every check of one tier sequentially; prints one line per check
# usage: tools/run_all.sh [tier] [IDs...]
tier=${1:-quick}; shift
ids="$@"; [ -z "$ids" ] && ids="C01 C02 C03 C04 C05 C06 C07 C08 C09 C10 C11 C12 C13 C14 C15 C16 C17 C18"
cd "$(dirname "$0")/.."
for id in $ids; do
  s=$(date +%s.%N)
  out=$(./check $id $tier 2>&1); rc=$?
  e=$(date +%s.%N)
  printf "%s rc=%d %.1fs  %s\n" $id $rc $(echo "$e - $s" | bc) "$(echo "$out" | grep -E "^$id $tier" | cut -c1-170)"
  echo "$out" | grep -E "^VIOLATION|^KNOWN-FINDING|^MACHINERY" | cut -c1-220
done
