#!/bin/bash
# Applies every seeded change under /verif/seeded to /repo in turn, runs the quick check of the property it breaks (the thorough one where seeded/<id>/TIER says so),
# undoes it, and prints one line per change. Exit 0 iff every change is detected (check exits 1 with a VIOLATION line).
cd /verif || exit 2
fail=0
for d in seeded/*/; do
  k=$(basename $d); id=${k%%-*}
  # a change that only a deeper bound reaches carries a TIER file (e.g. "thorough")
  tier=quick; [ -f ${d%/}/TIER ] && tier=$(cat ${d%/}/TIER)
  out=$(TIER=$tier tools/try_patch.sh /verif/${d%/}/patch.diff $id 2>&1)
  if echo "$out" | grep -q "^== $id rc=1" && echo "$out" | grep -q "^VIOLATION property=$id"; then
    echo "DETECTED $k  $(echo "$out" | grep -m1 clause | cut -c1-120)"
  else
    echo "MISSED   $k  $(echo "$out" | head -1 | cut -c1-160)"; fail=1
  fi
done
git -C /repo status --short | head -3
exit $fail
