#!/bin/bash
# usage: tools/try_patch.sh <patch.diff> <ID> [more IDs...]
# Applies a seeded change to /repo, runs the quick checks of the given properties, and undoes it straight afterwards.
patch="$1"; shift
cd /repo || exit 2
if ! git diff --quiet; then echo "/repo has local changes; refusing"; exit 2; fi
git apply "$patch" || { echo "patch does not apply"; exit 2; }
# evidence and replays written while the change is applied describe the changed tree: keep them out of /verif/evidence
keep=$(mktemp -d /dev/shm/evidence-keep.XXXXXX); cp -a /verif/evidence/. "$keep"/
trap 'git -C /repo checkout -- . ; git -C /repo clean -fdq tests 2>/dev/null; rm -rf /verif/evidence; mkdir -p /verif/evidence; cp -a "$keep"/. /verif/evidence/; rm -rf "$keep"' EXIT
for id in "$@"; do
  tier=${TIER:-quick}
  out=$(/verif/check $id $tier 2>&1); rc=$?
  echo "== $id rc=$rc $(echo "$out" | grep -E "^$id $tier" | cut -c1-160)"
  echo "$out" | grep -E "^VIOLATION|^  clause|^MACHINERY" | cut -c1-260 | head -8
done
