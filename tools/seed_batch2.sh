#!/bin/bash
# usage: tools/seed_batch2.sh <prefix> C02 C03 ...   (verify + try against the property's own quick check)
pre="$1"; shift
for id in "$@"; do for m in a b; do
  d=${pre}$id/mutant
  [ -f $d/$m.diff ] || continue
  v=$(tools/verify_seed.sh $d/$m.diff $d/demo_$m.rs 2>&1)
  clean=$(echo "$v" | sed -n '/unmodified tree/,/build with/p' | grep -c "test result: ok")
  suite42=$(echo "$v" | sed -n '/existing suite/,/demo with the mutant/p' | grep -c "42 passed")
  fails=$(echo "$v" | sed -n '/demo with the mutant/,$p' | grep -c "FAILED")
  echo "##### $id-$m verify: demo_passes_clean=$clean suite42=$suite42 demo_fails_mutant=$fails"
  timeout 600 tools/try_patch.sh $d/$m.diff $id 2>&1 | cut -c1-300 | head -4
done; done
