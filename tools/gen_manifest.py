#!/usr/bin/env python3
"""Generates /verif/MANIFEST.json from the table below (kept in one place so it stays valid)."""
import json, subprocess

HOOK_COMMITS = ["915111c"]

CHECKS = {
 "C01": dict(engine="E1 simnet + E2 loopback", level="model_checking", technique="stateless deviation-bounded exploration of the real Worker under a controlled environment (all answer sequences with <= D deviations; all placements of <= F network faults), plus exhaustive grid over real sockets",
   text="Every emitted DATA of the real sending Worker is checked against its file slice on all executions with at most D (1..3; thorough 4 on the lock-step and 2-block-window grids) adversarial answers and on all placements of up to F (1..3) network faults with a reference client; exhaustive within the stated grids and bounds. Socket::send failures are an environment answer too (the n-th datagram refused, every n); duplicate mode explored as well.",
   note="Trusted: SimSocket/virtual clock seam (one cfg hook), the slice monitor, the reference client; bounds D,F <= 3; small-scope grids plus boundary values rather than all 2^16 x 2^16 parameter pairs.", design="§3, §6 C01"),
 "C02": dict(engine="E1 simnet + E2 loopback", level="model_checking", technique="stateless deviation-bounded exploration of the real receiving Worker (all arrival sequences with <= D deviations, all placements of <= F faults) with the file read back at every ACK emission",
   text="All arrival histories with at most D (1..2, thorough 3..4) deviations (duplicates, gaps, old blocks, premature short blocks, strays, undecodable datagrams, timeouts) at every position, and all placements of up to F faults with a reference sender; the file on disk is observed inside Socket::send at the instant of each ACK. Write errors (RLIMIT_FSIZE) at every block: no block that could not be stored is acknowledged.",
   note="Trusted: SimSocket seam, RFC 1350 reference receiver used as oracle, file snapshots (len+hash).", design="§3, §6 C02"),
 "C03": dict(engine="E2 loopback", level="model_checking", technique="exhaustive enumeration of filenames over a path-token alphabet up to a length bound against the real Server, with tree snapshots and a lexical reference resolver",
   text="All names of <=3 (thorough 4; 6 on the separator/dot sub-alphabet) tokens over an 18-token path alphabet, as RRQ and WRQ, in 5-6 configurations (incl. the send directory reached by fallback); long names across NAME_MAX/PATH_MAX/the 512-octet request limit; downloads that fail (peer ERROR, peer silence); each accepted request is carried to its end; served bytes identify their origin; the sandbox tree is snapshotted before and after.",
   note="Trusted: reference resolver; Linux path semantics; no symlinks in the served tree.", design="§4, §6 C03"),
 "C04": dict(engine="E1 simnet + E2 loopback", level="fault_enumeration", technique="exhaustive enumeration of fault placements (drop/duplicate/delay/swap, both directions, both timer orders) over the closed system real Worker + reference peer",
   text="Every placement of up to F (2; thorough 3, and 4 on the shortest transfers) faults over all datagrams of a transfer, both roles, windowsize 1..4, four conformant peer variants, plus k<=5 consecutive losses at every position and all timeout/deliver words up to 12 answers; completion and byte identity are asserted whenever fewer than 6 faults occurred. Through the real Server (timeout=1 acknowledged): the same datagram lost 1, 2, 4 times in a row, both directions; the bundled tftpc behind a UDP relay that loses exactly one data-phase datagram, every early position.",
   note="Trusted: reference peers (RFC 1350/1123/7440), timer model (timers fire when the network is quiet; fair alternation).", design="§3.3, §6 C04"),
 "C05": dict(engine="E2 loopback (subprocess)", level="model_checking", technique="exhaustive enumeration of hostile datagram sequences up to length 2 over a structured alphabet, each against a fresh tftpd process, followed by a liveness probe",
   text="All sequences of 1 (thorough 2, same/different source) datagrams over a ~190-datagram hostile alphabet (every option boundary value up to and beyond 2^64) x 4 configurations (plus a server started inside its directory with -d .), each against a fresh process of the real binary; exit status and a canonical RRQ decide; after a completed transfer the canonical request is also issued from the endpoint that owned it.",
   note="Trusted: the alphabet covers the structurally relevant datagrams; arbitrary byte strings are C10's domain.", design="§6 C05"),
 "C06": dict(engine="E2 loopback", level="model_checking", technique="explicit-state breadth-first search over file-tree states with the real Server executing every transition, reference policy oracle, hidden-state differential guard",
   text="BFS to depth 2 (thorough 4) over 36 request actions from an initial tree in all 48 configurations (send directory explicit or by fallback), each with fresh sockets and with one reused client endpoint; every transition is judged by a reference policy function written from the statement.",
   note="Trusted: reference policy; state = file tree (server-internal state is guarded differentially by probing revisited states).", design="§4, §6 C06"),
 "C07": dict(engine="E1 simnet + E2 loopback", level="model_checking", technique="stateless deviation-bounded exploration of the real Worker (both roles) with termination monitors; silence, ERROR and k non-progress answers injected at every point; plus ERROR/silence histories against the real Server",
   text="All answer sequences with <= D deviations (2; thorough 3, 4 for windowsize <= 2) over the G1 grid, plus all-timeout from every point, ERROR at every point (handshake included; every error number 0..7; also with a non-UTF-8 message) and k = 0..9 non-progress answers of one kind followed by silence, both roles; monitors T1-T5. Through the real Server (both port modes): peer ERROR after k steps ends the transfer at once; silence is answered by a retransmission after the default 5 s and by giving up after six 1-second timeouts (wall clock).",
   note="Trusted: SimSocket seam; bounded retry accepted up to 16 consecutive timeouts.", design="§6 C07"),
 "C08": dict(engine="E1 simnet + E2 loopback", level="model_checking", technique="stateless deviation-bounded exploration with a virtual clock: ACK alphabet x delays {0,T/2,T-1ns}, windowsize incl. 65534/65535, overflow-checked build in the thorough tier",
   text="All answer sequences with <= D deviations where every ACK kind (full, partial, duplicate, stale, future) arrives with delay 0, T/2 or T-1ns; monitors W1-W4 on bursts and virtual time; windowsize 1,2,3,4,8,65534,65535 (incl. a completely filled 65535-block window). Through the real Server: a duplicate ACK 0.7 s before a negotiated 6 s interval elapses triggers nothing (wall clock).",
   note="Trusted: virtual clock hook (the run fails as machinery error if the hook is bypassed).", design="§6 C08"),
 "C09": dict(engine="E2 loopback", level="model_checking", technique="exhaustive enumeration of option lists (ordered selections x boundary values x casing x unknown/duplicate options) against the real Server with a reference negotiator and transfer-shape oracle",
   text="All ordered selections of the four options with boundary values (thorough: full cross product), x RRQ/WRQ x single/multi port x file sizes, each accepted request carried to its end with the acknowledged values; wall-clock clauses (retransmission interval for 1 s and for 6 s, above the default) measured with asymmetric tolerance; sparse files of 2^32 bytes and more (tsize), a symbolic link, upper/mixed-case mode spellings, near-miss option names, a tsize history; windows large in blocks or bytes (E1 cells with W5/W6, and a 39 MB window through the real Server).",
   note="Trusted: reference negotiator; the interval clause is a measurement, not an enumeration.", design="§6 C09"),
 "C12": dict(engine="E2 loopback", level="model_checking", technique="exhaustive enumeration of all interleavings of K client scripts' datagrams (one datagram at a time) plus an intruder datagram at every position, against the real Server",
   text="All interleavings of 2 scripts (10 pairs) and 3 short scripts, in both port modes, with an intruder datagram of 8 kinds to 2 targets (single-port: also from another loopback address with the victim's port number) at every position; a request that blocks on a named pipe at every position of another download; the listener on the dual-stack address with IPv4 clients; a download aborted by its own client; one transfer held open while 1500 (thorough 70000) other endpoints come and go; per-client byte identity, source-port discipline, ERROR to the intruder.",
   note="Assumes the driver's one-datagram-at-a-time regime; the server's internal thread schedule is the OS's (overlapped pairs in the thorough tier).", design="§6 C12"),
 "C13": dict(engine="E1 simnet + E2 loopback", level="fault_enumeration", technique="exhaustive enumeration of abort points x causes (ERROR, silence, RLIMIT_FSIZE write error) and of all interleavings of a stale and a fresh real Worker on one path",
   text="Every abort point of uploads of 1..5 blocks x cause x clean/keep x windowsize; all interleavings of two real Workers on one path; the same history through the real Server; single failing uploads through the real Server onto fresh and existing names.",
   note="The check-then-create window of two WRQs in no-overwrite mode is outside the enumerated schedules.", design="§6 C13"),
 "C14": dict(engine="E2 loopback + E1 simnet", level="exploration", technique="exhaustive run of a boundary-value configuration grid (in-process Client/Server, real binaries) plus exhaustive single-fault placement between two real Workers",
   text="Boundary grid size x blksize x windowsize x timeout x port mode x direction with the in-process bundled client; real tftpc/tftpd binaries on IPv4/IPv6 with three path styles and three refusal kinds; two real Workers over the simulated network with every placement of <=1 (2) faults; the bundled client (in-process and tftpc) behind a UDP relay losing one datagram at each early position; >65535 blocks with the real binaries; tftpd started with relative directory names; downloads without -rd; distinct-directory uploads and refusals.",
   note="Grid = boundary-value selection of a large space, hence 'exploration'.", design="§6 C14"),
 "C15": dict(engine="E1 simnet + E2 loopback", level="fault_enumeration", technique="exhaustive enumeration of fault placements in the block-number wrap neighbourhood of >65535-block transfers (real Worker + reference peer)",
   text="Transfers of 65535..65539 (and 131074) blocks, both roles, windowsize placing the wrap at the end/start/middle of a window, every placement of up to F (1, thorough 2) faults on datagrams carrying/acknowledging blocks 65530..65541; plus uploads and downloads of 65541 blocks through the real Server in both port modes.",
   note="Trusted: absolute block tracking in the monitors.", design="§6 C15"),
 "C16": dict(engine="E1 simnet + E2 loopback", level="model_checking", technique="stateless exploration of the real Worker with repeat = N+1 under the multiplicity monitor, wire counts against the real Server, exhaustive N = 0..300 through the config parser",
   text="N in {0,1,2,3,254} x roles x windowsize x lengths with D <= 1 deviations, peers answering once or every copy; copies counted on the wire for N in 0..3 in both port modes, every kind of listener ERROR counted once (also on read-only and no-overwrite servers); a peer that leaves after the first copy of the final ACK; a window of copies that outlasts the timeout (1 ms of virtual time per copy); N = 0..=300 through Config::new and 254/255/256 through the binary; tftpc against a duplicating tftpd.",
   note="Wire-level surplus-copy detection uses a short wait; exact counting is done in E1.", design="§6 C16"),
 "C10": dict(engine="E3 seq", level="model_checking", technique="exhaustive bounded enumeration of datagrams through the real decoder (explicit enumeration, no sampling)",
   text="Every byte string of <=5 (thorough <=6, <=8 after a valid opcode) tokens over a 19-token structural alphabet, all 65536 opcode prefixes x tails, all single-site mutations of valid encodings, and 0..70/100/300 well-formed options followed by a malformed one are pushed through the real Packet::deserialize; mandatory rejections are judged by an independent RFC decoder, stability by re-encoding with the real encoder. Exhaustive within the alphabet/length bound.",
   note="Trusted: the independent decoder in harness/src/refcodec.rs and the choice of token alphabet; bytes outside the alphabet are represented by one letter/digit each.", design="§6 C10"),
 "C11": dict(engine="E3 seq", level="model_checking", technique="exhaustive enumeration of grammar-generated packet values incl. all 65536 block numbers / opcodes / error codes, against an independent RFC codec",
   text="All packets generated by a small grammar (all u16 numbers exhaustively; option lists of up to 1000 entries; every named opcode / error code against the RFC's number for that name) are encoded by the real encoder and compared byte for byte with an independent RFC encoder, decoded back by the real decoder and by the independent one.",
   note="Trusted: harness/src/refcodec.rs; string and option-value sets are representative, not all strings.", design="§6 C11"),
 "C17": dict(engine="E3 seq", level="model_checking", technique="exhaustive enumeration of argument vectors up to a length bound through the real parsers, against a reference parser plus model-free permutation comparison",
   text="Every argument vector of <=3 (thorough <=5, 6 on a sub-alphabet) flag units over ~35 units goes through the real Config::new / ClientConfig::new and is compared with a reference parser written from the statement; permutations of non-repeating vectors are compared with each other.",
   note="Trusted: the reference parser; -h/--help excluded (process::exit).", design="§6 C17"),
 "C18": dict(engine="E3 seq", level="model_checking", technique="exhaustive enumeration of operation sequences up to a depth on the real Window, against a VecDeque reference model",
   text="All operation sequences of length 5 (thorough 7) over (size, chunk, file length) in {0..3}x{1..3}x{0..7} in source, sink and mixed regimes, plus window sizes 65534/65535, are applied to the real Window and every observer is compared with a reference queue after each operation; whole files of 8191..200000 bytes (more than 65536 chunks) and one sparse file beyond 4 GiB streamed through fill/remove, capacity for size x chunk up to 4.3e9 bytes and 1023..65535 pieces buffered before one empty().",
   note="Trusted: the reference queue; regular files only.", design="§6 C18"),
}

NOT_YET = {
}

def main():
    props = [json.loads(l) for l in open('/verif/properties.jsonl')]
    checks = []
    na = []
    for p in props:
        i = p['id']
        if i in CHECKS:
            c = CHECKS[i]
            checks.append({
                "property_id": i,
                "quick_cmd": f"./check {i} quick",
                "thorough_cmd": f"./check {i} thorough",
                "evidence_file": f"/verif/evidence/{i}.json",
                "replay_cmd_template": "./check replay {path}",
                "engine": c["engine"],
                "level_claimed": {"category": c["level"], "text": c["text"], "design_ref": c["design"]},
                "level_note": c["note"],
                "technique": c["technique"],
            })
        else:
            na.append({"property_id": i, "reason": NOT_YET.get(i, "check under construction in this round (engine not built yet); not claimed until it runs — see DESIGN.md §12")})
    m = {
        "version": 1,
        "setup_cmd": "./check build thorough",
        "hooks": {
            "guard": "--cfg rs_tftpd_verif",
            "enable": "RUSTFLAGS='--cfg rs_tftpd_verif' (set by ./check for the harness build, which compiles /repo as a path dependency, and for the tftpd/tftpc binaries built into /verif/target-repo)",
            "baseline_off_cmd": "cd /repo && cargo test --workspace --no-fail-fast --offline",
            "source_commits": HOOK_COMMITS,
            "add_only": True,
        },
        "engines": [
            {"name": "E1 simnet", "path": "harness/src/sim.rs", "serves_properties": ["C01","C02","C04","C07","C08","C13","C14","C15","C16"], "kind_free_text": "deviation-bounded stateless exploration of the real Worker on a simulated Socket and virtual clock"},
            {"name": "E2 loopback", "path": "harness/src/loopback.rs", "serves_properties": ["C03","C05","C06","C09","C12","C13","C14","C16"], "kind_free_text": "exhaustive request/sequence/interleaving enumeration against the real Server on loopback, one datagram at a time"},
            {"name": "E3 seq", "path": "harness/src/e3_*.rs", "serves_properties": ["C10","C11","C17","C18"], "kind_free_text": "exhaustive sequential enumeration of inputs / operation sequences on the public API against reference models"},
        ],
        "checks": checks,
        "not_applicable": na,
        "notes": "All checks explore executions of the implementation itself (no abstract model). exit 2 = machinery problem, never a verdict. known_findings.json lists recorded defects.",
    }
    json.dump(m, open('/verif/MANIFEST.json','w'), indent=1)
    print("checks:", [c["property_id"] for c in checks], "not claimed:", [n["property_id"] for n in na])

main()
