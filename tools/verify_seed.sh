#!/bin/bash
# usage: tools/verify_seed.sh <patch.diff> <demo.rs>
# In a fresh scratch worktree of /repo (under /dev/shm): the mutant compiles, the existing suite passes with it,
# the demonstration fails with it and passes without it. Removes the worktree afterwards.
patch="$(realpath "$1")"; demo="$(realpath "$2")"
wt=/dev/shm/seedwt-$$
git -C /repo worktree add -q --detach $wt HEAD || exit 2
trap 'git -C /repo worktree remove --force '$wt' 2>/dev/null; rm -rf '$wt EXIT
cd $wt
name=$(basename "$demo" .rs)
cp "$demo" tests/$name.rs
export CARGO_NET_OFFLINE=true
echo "--- demo on the unmodified tree (must pass)"
timeout 600 cargo test --offline --features client --test $name 2>&1 | grep -E "^test result|error(\[|:)" | head -3
git apply "$patch" || { echo "PATCH DOES NOT APPLY"; exit 1; }
echo "--- build with the mutant"
cargo build --offline --features client 2>&1 | grep -E "^error|Finished" | head -3
echo "--- existing suite with the mutant (must pass: 42 + doc tests)"
mv tests/$name.rs /dev/shm/$name.$$.rs
timeout 600 cargo test --offline 2>&1 | grep -E "^test result" | head -4
mv /dev/shm/$name.$$.rs tests/$name.rs
echo "--- demo with the mutant (must fail)"
timeout 600 cargo test --offline --features client --test $name 2>&1 | grep -E "^test result|panicked" | head -12
