#!/bin/bash
# usage: tools/seed_verify_only.sh <prefix e.g. /tmp/wt2-> C02 C03 ...
pre="$1"; shift
for id in "$@"; do for m in a b c; do
  d=${pre}$id/mutant
  [ -f $d/$m.diff ] || continue
  v=$(tools/verify_seed.sh $d/$m.diff $d/demo_$m.rs 2>&1)
  clean=$(echo "$v" | sed -n '/unmodified tree/,/build with/p' | grep -c "test result: ok")
  suite=$(echo "$v" | sed -n '/existing suite/,/demo with the mutant/p' | grep "test result" | grep -vc "ok\.")
  suite42=$(echo "$v" | sed -n '/existing suite/,/demo with the mutant/p' | grep -c "42 passed")
  fails=$(echo "$v" | sed -n '/demo with the mutant/,$p' | grep -c "FAILED")
  echo "##### $id-$m verify: demo_passes_clean=$clean suite_nonok=$suite suite42=$suite42 demo_fails_mutant=$fails"
done; done
