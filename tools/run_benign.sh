#!/bin/bash
# Applies every property-preserving change under /verif/benign to /repo in turn, runs ALL quick checks, undoes it.
# Exit 0 iff no check raises an alarm (rc=1) or breaks (rc=2) on any of them.  usage: tools/run_benign.sh [names...]
cd /verif || exit 2
fail=0
names="$@"; [ -z "$names" ] && names=$(ls benign)
for k in $names; do
  [ -f benign/$k/patch.diff ] || continue
  out=$(tools/try_patch.sh /verif/benign/$k/patch.diff C01 C02 C03 C04 C05 C06 C07 C08 C09 C10 C11 C12 C13 C14 C15 C16 C17 C18 2>&1)
  bad=$(echo "$out" | grep -E "^== C[0-9]+ rc=[^0]")
  if [ -z "$bad" ] && echo "$out" | grep -q "^== C18 rc=0"; then
    echo "QUIET  $k"
  else
    echo "ALARM  $k"; echo "$out" | grep -E "^== C[0-9]+ rc=[^0]|^VIOLATION|^  clause|^MACHINERY|patch does not|refusing" | cut -c1-300 | head -30; fail=1
  fi
done
git -C /repo status --short | head -3
exit $fail
