//! E1 Mode B: closed system = real Worker + reference peer (pure state machine written from RFC 1350 / 1123 / 7440)
//! + a network that can drop, duplicate, delay-past-timeout or swap any datagram in either direction.
//! Every placement of up to F faults and both orders of simultaneous timers are enumerated.

use crate::modea::{block_payload, cached_content, e1_dir, Role, Trace, XCfg};
use crate::refcodec::{self as rc, RPacket};
use crate::sim::*;
use serde_json::{json, Value};
use std::collections::VecDeque;
use std::time::Duration;
use tftpd::Worker;

#[derive(Clone, Debug)]
pub struct BCfg {
    pub x: XCfg,
    /// receiver peer: re-ACK a duplicate (old) DATA block
    pub reack_dup: bool,
    /// receiver peer: retransmit the last ACK when its timer fires
    pub ack_on_timeout: bool,
    /// receiver peer: stay around after the final ACK to answer retransmitted final blocks
    pub dally: bool,
    /// faults only on datagrams that carry / acknowledge absolute blocks in this range (None = everywhere)
    pub fault_window: Option<(u64, u64)>,
    /// family: the datagram with this emission index (either direction) is dropped `lose_times` times in a row
    pub lose_index: Option<usize>,
    pub lose_times: usize,
    /// the peer's own timer is three times faster than the worker's: whenever the network is quiet the peer's timer fires
    /// (its retransmission reaches the worker a third of a timeout into its wait), so the worker's receive never times
    /// out while the peer is alive — retransmission must then be driven by the elapsed time, not by a receive timeout
    pub fast_peer_timer: bool,
}

impl BCfg {
    pub fn to_json(&self) -> Value {
        json!({"x": self.x.to_json(), "reack_dup": self.reack_dup, "ack_on_timeout": self.ack_on_timeout, "dally": self.dally,
               "fault_window": self.fault_window.map(|(a, b)| vec![a, b]), "lose_index": self.lose_index, "lose_times": self.lose_times, "fast_peer_timer": self.fast_peer_timer})
    }
    pub fn from_json(v: &Value) -> BCfg {
        BCfg {
            x: XCfg::from_json(&v["x"]),
            reack_dup: v["reack_dup"].as_bool().unwrap_or(true),
            ack_on_timeout: v["ack_on_timeout"].as_bool().unwrap_or(true),
            dally: v["dally"].as_bool().unwrap_or(false),
            fault_window: v["fault_window"].as_array().map(|a| (a[0].as_u64().unwrap(), a[1].as_u64().unwrap())),
            lose_index: v["lose_index"].as_u64().map(|x| x as usize),
            lose_times: v["lose_times"].as_u64().unwrap_or(0) as usize,
            fast_peer_timer: v["fast_peer_timer"].as_bool().unwrap_or(false),
        }
    }
    pub fn brief(&self) -> String {
        format!("{} peer[{}{}{}{}]", self.x.brief(), if self.reack_dup { "reack " } else { "" }, if self.ack_on_timeout { "ack-on-timeout " } else { "" }, if self.dally { "dally" } else { "" }, if self.fast_peer_timer { " fast-timer" } else { "" })
    }
}

const PEER_RETRIES: u32 = 8;
pub const MAX_TIE_POINTS: usize = 5;

// ---------------------------------------------------------------- reference peers

pub struct PeerRecv {
    pub next: u64,
    pub assembled: Vec<u8>,
    pub done: bool,
    pub gone: bool,
    pub failed: bool,
    count: u64,
    retries: u32,
    blk: usize,
    ws: u64,
    reack_dup: bool,
    ack_on_timeout: bool,
    dally: bool,
    pub final_ack_emitted: bool,
}

impl PeerRecv {
    fn new(c: &BCfg) -> PeerRecv {
        PeerRecv { next: 1, assembled: vec![], done: false, gone: false, failed: false, count: 0, retries: 0, blk: c.x.blk, ws: c.x.ws as u64, reack_dup: c.reack_dup, ack_on_timeout: c.ack_on_timeout, dally: c.dally, final_ack_emitted: false }
    }
    fn on_datagram(&mut self, bytes: &[u8]) -> Vec<Vec<u8>> {
        if self.gone || self.failed {
            return vec![];
        }
        let Some(p) = decode(bytes) else { return vec![] };
        match p {
            RPacket::Data { block, data } => {
                let k = abs_block(block, self.next.saturating_sub(1));
                if self.done {
                    // dallying: answer a retransmitted final block
                    if k == self.next - 1 {
                        return vec![rc::ack(block)];
                    }
                    return vec![];
                }
                if k == self.next {
                    if data.len() > self.blk {
                        return vec![]; // oversized: not from a conformant sender
                    }
                    self.retries = 0;
                    self.assembled.extend_from_slice(&data);
                    self.next += 1;
                    self.count += 1;
                    if data.len() < self.blk {
                        self.done = true;
                        self.final_ack_emitted = true;
                        if !self.dally {
                            self.gone = true;
                        }
                        return vec![rc::ack(block)];
                    }
                    if self.count == self.ws {
                        self.count = 0;
                        return vec![rc::ack(block)];
                    }
                    vec![]
                } else if k < self.next {
                    // duplicate of a block already received
                    if self.reack_dup {
                        self.count = 0;
                        vec![rc::ack(((self.next - 1) % 65536) as u16)]
                    } else {
                        vec![]
                    }
                } else {
                    // gap: RFC 7440 receivers acknowledge the last block received in order
                    if self.ws > 1 || self.reack_dup {
                        self.count = 0;
                        if self.next > 1 {
                            vec![rc::ack(((self.next - 1) % 65536) as u16)]
                        } else {
                            vec![rc::ack(0)]
                        }
                    } else {
                        vec![]
                    }
                }
            }
            RPacket::Error { .. } => {
                self.failed = true;
                vec![]
            }
            _ => vec![],
        }
    }
    fn has_timer(&self) -> bool {
        !self.gone && !self.failed && !self.done
    }
    fn on_timeout(&mut self) -> Vec<Vec<u8>> {
        if !self.has_timer() {
            return vec![];
        }
        self.retries += 1;
        if self.retries > PEER_RETRIES {
            self.failed = true;
            return vec![];
        }
        if self.ack_on_timeout && self.next > 1 {
            self.count = 0;
            return vec![rc::ack(((self.next - 1) % 65536) as u16)];
        }
        vec![]
    }
}

pub struct PeerSend {
    base: u64,
    sent_hi: u64,
    nfinal: u64,
    pub done: bool,
    pub failed: bool,
    retries: u32,
    ws: u64,
    cfg: XCfg,
    content: std::sync::Arc<Vec<u8>>,
    pub final_ack_seen: bool,
}

impl PeerSend {
    fn new(c: &BCfg, content: std::sync::Arc<Vec<u8>>) -> PeerSend {
        PeerSend { base: 1, sent_hi: 0, nfinal: c.x.kfinal(), done: false, failed: false, retries: 0, ws: c.x.ws as u64, cfg: c.x.clone(), content, final_ack_seen: false }
    }
    fn window(&mut self) -> Vec<Vec<u8>> {
        let hi = (self.base + self.ws - 1).min(self.nfinal);
        let mut out = vec![];
        for k in self.base..=hi {
            out.push(rc::data((k % 65536) as u16, &block_payload(&self.cfg, &self.content, k)));
        }
        if hi > self.sent_hi {
            self.sent_hi = hi;
        }
        out
    }
    fn start(&mut self) -> Vec<Vec<u8>> {
        self.window()
    }
    fn on_datagram(&mut self, bytes: &[u8]) -> Vec<Vec<u8>> {
        if self.done || self.failed {
            return vec![];
        }
        match decode(bytes) {
            Some(RPacket::Ack(k)) => {
                let ka = abs_block(k, self.base.saturating_sub(1));
                if ka >= self.base && ka <= self.sent_hi {
                    self.base = ka + 1;
                    self.retries = 0;
                    if ka == self.nfinal {
                        self.done = true;
                        self.final_ack_seen = true;
                        return vec![];
                    }
                    return self.window();
                }
                vec![] // duplicate / stale / future ACK: ignored (RFC 1123 4.2.3.1)
            }
            Some(RPacket::Error { .. }) => {
                self.failed = true;
                vec![]
            }
            _ => vec![],
        }
    }
    fn has_timer(&self) -> bool {
        !self.done && !self.failed
    }
    fn on_timeout(&mut self) -> Vec<Vec<u8>> {
        if !self.has_timer() {
            return vec![];
        }
        self.retries += 1;
        if self.retries > PEER_RETRIES {
            self.failed = true;
            return vec![];
        }
        self.window()
    }
}

enum Peer {
    R(PeerRecv),
    S(PeerSend),
}

impl Peer {
    fn progress_mark(&self) -> (u64, bool, bool) {
        match self {
            Peer::R(p) => (p.next, p.done, p.failed),
            Peer::S(p) => (p.base, p.done, p.failed),
        }
    }
    fn on_datagram(&mut self, b: &[u8]) -> Vec<Vec<u8>> {
        match self {
            Peer::R(p) => p.on_datagram(b),
            Peer::S(p) => p.on_datagram(b),
        }
    }
    fn on_timeout(&mut self) -> Vec<Vec<u8>> {
        match self {
            Peer::R(p) => p.on_timeout(),
            Peer::S(p) => p.on_timeout(),
        }
    }
    fn has_timer(&self) -> bool {
        match self {
            Peer::R(p) => p.has_timer(),
            Peer::S(p) => p.has_timer(),
        }
    }
}

// ---------------------------------------------------------------- network with faults

#[derive(Clone, Copy, PartialEq, Debug)]
enum Fault {
    Normal,
    Drop,
    Dup,
    Delay,
    Swap,
}
const FAULTS: [Fault; 5] = [Fault::Normal, Fault::Drop, Fault::Dup, Fault::Delay, Fault::Swap];

struct Dir {
    queue: VecDeque<(Vec<u8>, u64)>, // (bytes, delivery delay ns)
    delayed: Vec<Vec<u8>>,           // released right after the destination's next timer event
    swap_held: Option<Vec<u8>>,      // goes behind the next datagram of this direction
}

impl Dir {
    fn new() -> Dir {
        Dir { queue: VecDeque::new(), delayed: vec![], swap_held: None }
    }
    fn put(&mut self, b: Vec<u8>, f: Fault, delay: u64) {
        match f {
            Fault::Normal => {
                self.queue.push_back((b, delay));
                if let Some(h) = self.swap_held.take() {
                    self.queue.push_back((h, delay));
                }
            }
            Fault::Drop => {}
            Fault::Dup => {
                self.queue.push_back((b.clone(), delay));
                self.queue.push_back((b, delay));
                if let Some(h) = self.swap_held.take() {
                    self.queue.push_back((h, delay));
                }
            }
            Fault::Delay => self.delayed.push(b),
            Fault::Swap => {
                if let Some(h) = self.swap_held.take() {
                    self.queue.push_back((h, delay));
                }
                self.swap_held = Some(b);
            }
        }
    }
    fn flush_swap(&mut self) {
        if let Some(h) = self.swap_held.take() {
            self.queue.push_back((h, 0));
        }
    }
    fn release_delayed(&mut self) {
        for b in self.delayed.drain(..) {
            self.queue.push_back((b, 0));
        }
    }
    fn idle(&self) -> bool {
        self.queue.is_empty() && self.swap_held.is_none()
    }
}

pub struct BTrace {
    pub tr: Trace,
    pub peer_done: bool,
    pub peer_failed: bool,
    pub peer_assembled: Option<Vec<u8>>,
    pub final_ack_delivered_to_sender: bool,
    pub faults: Vec<String>,
    pub steps: u64,
    pub step_cap_hit: bool,
}

fn block_of(bytes: &[u8], near: u64) -> Option<u64> {
    match decode(bytes) {
        Some(RPacket::Data { block, .. }) | Some(RPacket::Ack(block)) => Some(abs_block(block, near.saturating_sub(1))),
        _ => None,
    }
}

pub fn run_b(c: &BCfg, prefix: &[u16]) -> BTrace {
    let cfg = &c.x;
    let dir = e1_dir();
    let content = cached_content(cfg.len);
    let path = match cfg.role {
        Role::Sender => {
            let p = format!("{dir}/src_{}", cfg.len);
            if std::fs::metadata(&p).map(|m| m.len() as usize != cfg.len).unwrap_or(true) {
                std::fs::write(&p, &content[..]).unwrap();
            }
            p
        }
        Role::Receiver => {
            let p = format!("{dir}/upload");
            let _ = std::fs::write(&p, vec![0xA5u8; cfg.len.min(4096) + 97]);
            p
        }
    };
    clock_reset();
    let t = Duration::from_secs(cfg.timeout_s);
    let t_ns = cfg.timeout_ns();
    let snap = if cfg.role == Role::Receiver { if cfg.snapshot_tail { Snapshot::Tail } else { Snapshot::Full } } else { Snapshot::None };
    let (sock, drv) = sim_pair(t, snap, &path, 1);
    let worker = Worker::new(Box::new(sock), std::path::PathBuf::from(&path), cfg.clean, cfg.blk, t, cfg.ws, cfg.repeat);
    let handle = match cfg.role {
        Role::Sender => worker.send(false),
        Role::Receiver => worker.receive(),
    }
    .expect("spawn");
    let mut ch = Chooser::new(prefix);
    let mut peer = match cfg.role {
        Role::Sender => Peer::R(PeerRecv::new(c)),
        Role::Receiver => Peer::S(PeerSend::new(c, content.clone())),
    };
    let mut to_peer = Dir::new();
    let mut to_worker = Dir::new();
    let mut final_ack_delivered_to_sender = false;
    let kfinal = cfg.kfinal();

    // one fault decision per emitted datagram
    struct Emit<'a> {
        c: &'a BCfg,
        faults: Vec<String>,
        emission_index: usize,
        lose_left: usize,
        lose_bytes: Option<Vec<u8>>,
        highest: u64,
    }
    impl<'a> Emit<'a> {
        fn emit(&mut self, ch: &mut Chooser, d: &mut Dir, b: Vec<u8>, who: &str, delay: u64) {
            let idx = self.emission_index;
            self.emission_index += 1;
            let blk_no = block_of(&b, self.highest);
            if let Some(k) = blk_no {
                if k > self.highest {
                    self.highest = k;
                }
            }
            if let Some(li) = self.c.lose_index {
                // consecutive-loss family: the li-th datagram and its next retransmissions (identical bytes) are dropped, lose_times in all
                let mut fault = Fault::Normal;
                if idx == li && self.lose_left > 0 {
                    self.lose_bytes = Some(b.clone());
                    self.lose_left -= 1;
                    fault = Fault::Drop;
                } else if idx > li && self.lose_left > 0 && self.lose_bytes.as_ref() == Some(&b) {
                    self.lose_left -= 1;
                    fault = Fault::Drop;
                }
                ch.choose(&[0], &|_| format!("{who}#{idx} {} {:?}", rc::describe(&b), fault));
                if fault != Fault::Normal {
                    self.faults.push(format!("{who}#{idx} {} {:?}", rc::describe(&b), fault));
                }
                d.put(b, fault, delay);
                return;
            }
            let in_window = match (self.c.fault_window, blk_no) {
                (None, _) => true,
                (Some((lo, hi)), Some(k)) => k >= lo && k <= hi,
                (Some(_), None) => false,
            };
            if !in_window {
                d.put(b, Fault::Normal, delay);
                return;
            }
            let costs = [0u8, 1, 1, 1, 1];
            let f = FAULTS[ch.choose(&costs, &|i| format!("{who}#{idx} {} {:?}", rc::describe(&b), FAULTS[i]))];
            if f != Fault::Normal {
                self.faults.push(format!("{who}#{idx} {} {:?}", rc::describe(&b), f));
            }
            d.put(b, f, delay);
        }
    }
    let mut em = Emit { c, faults: vec![], emission_index: 0, lose_left: c.lose_times, lose_bytes: None, highest: 1 };
    let mut tie_points = 0usize;
    let mut timer_flag = false;
    let mut last_fired: Option<bool> = None; // Some(true) = the worker's timer fired last, with no datagram delivered since

    // the uploading peer starts by sending its first window
    if let Peer::S(p) = &mut peer {
        for b in p.start() {
            em.emit(&mut ch, &mut to_worker, b, "peer", 0);
        }
    }
    let mut seen = 0usize;
    let mut steps: u64 = 0;
    let step_cap: u64 = 60 * (kfinal + 12);
    let mut step_cap_hit = false;
    let mut stuck = false;
    let mut worker_closed = false;
    loop {
        steps += 1;
        if steps > step_cap {
            step_cap_hit = true;
            break;
        }
        // let the worker run until it blocks or exits, then collect what it emitted
        let st = if worker_closed { WState::Closed } else { drv.wait() };
        let timer_just_fired = std::mem::replace(&mut timer_flag, false);
        let evs = drv.events_from(seen);
        seen += evs.len();
        for e in &evs {
            if let Event::Send { bytes, .. } = e {
                if !timer_just_fired {
                    last_fired = None; // the worker reacted to a datagram
                }
                em.emit(&mut ch, &mut to_peer, bytes.clone(), "worker", 0);
            }
        }
        match st {
            WState::Stuck => {
                stuck = true;
                break;
            }
            WState::Closed => worker_closed = true,
            WState::Recv(_) => {}
        }
        // canonical schedule: peer input first, then worker input, then timers
        if let Some((b, _)) = to_peer.queue.pop_front() {
            let before = peer.progress_mark();
            let outs = peer.on_datagram(&b);
            if !outs.is_empty() || peer.progress_mark() != before {
                last_fired = None; // the peer reacted: its timer restarts
            }
            for o in outs {
                em.emit(&mut ch, &mut to_worker, o, "peer", 0);
            }
            continue;
        }
        if worker_closed {
            // nothing more can reach the worker; the peer has consumed everything addressed to it
            to_peer.flush_swap();
            if to_peer.queue.is_empty() {
                break;
            }
            continue;
        }
        if let Some((b, delay)) = to_worker.queue.pop_front() {
            if cfg.role == Role::Sender {
                if let Some(RPacket::Ack(k)) = decode(&b) {
                    if abs_block(k, kfinal.saturating_sub(1)) == kfinal {
                        final_ack_delivered_to_sender = true;
                    }
                }
            }
            drv.answer(Answer::Deliver { bytes: b, delay_ns: delay });
            continue;
        }
        // quiet network: datagrams held for a swap that never got a successor are simply delivered
        if to_peer.swap_held.is_some() || to_worker.swap_held.is_some() {
            to_peer.flush_swap();
            to_worker.flush_swap();
            continue;
        }
        // timers
        let peer_timer = peer.has_timer();
        // both timers pending: which fires first is explored (cost 0) at the first MAX_TIE_POINTS such points; after
        // one side's timer has fired the other side's fires before the first one fires again (equal periods, fairness)
        let first_worker = if !peer_timer {
            true
        } else if c.fast_peer_timer {
            false
        } else {
            match last_fired {
                Some(true) => false,
                Some(false) => true,
                None => {
                    if tie_points < MAX_TIE_POINTS {
                        tie_points += 1;
                        ch.choose(&[0, 0], &|i| if i == 0 { "timer: worker first".into() } else { "timer: peer first".into() }) == 0
                    } else {
                        true
                    }
                }
            }
        };
        last_fired = Some(first_worker);
        timer_flag = first_worker;
        if first_worker {
            drv.answer(Answer::Timeout);
            to_worker.release_delayed();
        } else {
            let outs = peer.on_timeout();
            to_peer.release_delayed();
            if c.fast_peer_timer && outs.is_empty() {
                // the peer's timer fired without emitting anything: nothing reaches the worker, so its own receive
                // timeout is what happens next
                last_fired = Some(true);
                timer_flag = true;
                drv.answer(Answer::Timeout);
                to_worker.release_delayed();
                continue;
            }
            for o in outs {
                // datagrams triggered by the peer's own (shorter) timer reach the worker half a timeout into its wait
                em.emit(&mut ch, &mut to_worker, o, "peer", if c.fast_peer_timer { t_ns / 3 } else { t_ns / 2 });
            }
            if to_worker.idle() && to_peer.idle() && !peer.has_timer() {
                // the peer gave up; only the worker's timer is left
                continue;
            }
        }
    }
    let panicked = if stuck || step_cap_hit {
        std::mem::forget(handle);
        false
    } else {
        if !worker_closed {
            // cannot happen: loop exits only via the branches above
        }
        handle.join().is_err()
    };
    let now_calls = tftpd::verif::sim_now_calls();
    let events = drv.take_events();
    let final_file = if cfg.role == Role::Receiver { std::fs::read(&path).ok() } else { None };
    let (peer_done, peer_failed, peer_assembled, fa) = match &peer {
        Peer::R(p) => (p.done, p.failed, Some(p.assembled.clone()), final_ack_delivered_to_sender),
        Peer::S(p) => (p.done, p.failed, None, p.final_ack_seen),
    };
    let tr = Trace { cfg: cfg.clone(), events, log: ch.log.clone(), panicked, stuck, horizon_hit: step_cap_hit, replay_error: ch.replay_error.clone(), now_calls, final_file, content };
    BTrace { tr, peer_done, peer_failed, peer_assembled, final_ack_delivered_to_sender: fa, faults: em.faults, steps, step_cap_hit }
}
