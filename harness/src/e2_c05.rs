//! E2 / C05 listener availability: every sequence of up to two hostile datagrams, each against a FRESH `tftpd`
//! process (the real binary built from /repo), followed by a canonical liveness probe.

use crate::loopback::{free_port, BACKSTOP};
use crate::refcodec::{self as rc, RPacket};
use crate::util::*;
use crate::{Outcome, Tier};
use serde_json::{json, Value};
use std::net::{SocketAddr, UdpSocket};
use std::process::{Child, Command, Stdio};
use std::time::{Duration, Instant};

pub fn tftpd_path() -> String {
    format!("{}/target-repo/release/tftpd", verif_dir())
}
pub fn tftpc_path() -> String {
    format!("{}/target-repo/release/tftpc", verif_dir())
}

pub struct Proc {
    pub child: Child,
    pub addr: SocketAddr,
    pub dir: String,
}

impl Drop for Proc {
    fn drop(&mut self) {
        let _ = self.child.kill();
        let _ = self.child.wait();
        let _ = std::fs::remove_dir_all(&self.dir);
    }
}

static SEQ: std::sync::atomic::AtomicUsize = std::sync::atomic::AtomicUsize::new(0);

pub fn probe_content() -> Vec<u8> {
    content(1100, 4242)
}

pub fn udp_client(ipv6: bool) -> UdpSocket {
    UdpSocket::bind(if ipv6 { "[::1]:0" } else { "127.0.0.1:0" }).expect("bind")
}

/// Spawns a fresh tftpd and waits until it answers. Err = could not be started (machinery, not a verdict).
pub fn spawn_tftpd(extra: &[&str], ipv6: bool) -> Result<Proc, String> {
    if !std::path::Path::new(&tftpd_path()).exists() {
        return Err(format!("{} missing (./check build)", tftpd_path()));
    }
    for _attempt in 0..10 {
        let n = SEQ.fetch_add(1, std::sync::atomic::Ordering::SeqCst);
        let dir = format!("{}/c05/p{}", scratch_root(), n);
        std::fs::create_dir_all(format!("{dir}/srv/sub")).map_err(|e| e.to_string())?;
        std::fs::create_dir_all(format!("{dir}/up")).map_err(|e| e.to_string())?;
        std::fs::write(format!("{dir}/srv/probe.bin"), probe_content()).map_err(|e| e.to_string())?;
        // readiness token: only OUR server can serve it (two shards can pick the same free port; the loser's tftpd exits
        // at once and the winner's would otherwise answer our readiness probe)
        let token = format!("ready-{}-{}", std::process::id(), n);
        std::fs::write(format!("{dir}/srv/ready.tok"), &token).map_err(|e| e.to_string())?;
        let port = free_port(ipv6);
        let ip = if ipv6 { "::1" } else { "127.0.0.1" };
        let mut cmd = Command::new(tftpd_path());
        // "@first:" arguments go in front of -d (flag order must not matter); "{dir}" is replaced by the sandbox directory
        let fix = |a: &str| a.trim_start_matches("@first:").replace("{dir}", &dir);
        // "@reldir": the served directory is given as "." (relative), with the process started inside it
        let reldir = extra.iter().any(|a| *a == "@reldir");
        let relparent = extra.iter().any(|a| *a == "@relparent");
        let first: Vec<String> = extra.iter().filter(|a| a.starts_with("@first:")).map(|a| fix(a)).collect();
        let rest: Vec<String> = extra.iter().filter(|a| !a.starts_with("@first:") && **a != "@reldir" && **a != "@relparent").map(|a| fix(a)).collect();
        let extra = &rest;
        // "@relparent": started in the PARENT of the served directory, which is given by its relative name ("srv"); "{rel}" in
        // other arguments stays relative too (e.g. "-rd up")
        let served = if reldir { ".".to_string() } else if relparent { "srv".to_string() } else { format!("{dir}/srv") };
        if reldir {
            cmd.current_dir(format!("{dir}/srv"));
        }
        if relparent {
            cmd.current_dir(&dir);
        }
        cmd.args(&first).args(["-i", ip, "-p", &port.to_string(), "-d", &served]).args(extra).stdin(Stdio::null()).stdout(Stdio::null()).stderr(Stdio::null());
        die_with_parent(&mut cmd);
        let child = cmd.spawn().map_err(|e| format!("spawn: {e}"))?;
        let addr: SocketAddr = format!("{}:{}", if ipv6 { "[::1]" } else { "127.0.0.1" }, port).parse().unwrap();
        let mut p = Proc { child, addr, dir };
        // readiness: the token file is served (a fresh socket per probe, so stale replies cannot be confused)
        let t0 = Instant::now();
        let mut buf = [0u8; 600];
        let mut ready = false;
        while t0.elapsed() < Duration::from_secs(3) && !ready {
            if let Ok(Some(_)) = p.child.try_wait() {
                break; // exited at start-up (port taken): retry with another port
            }
            let s = udp_client(ipv6);
            let _ = s.set_read_timeout(Some(Duration::from_millis(3)));
            let _ = s.send_to(&rc::request(false, b"ready.tok", &[]), addr);
            if let Ok((k, from)) = s.recv_from(&mut buf) {
                match rc::decode(&buf[..k]) {
                    Ok(RPacket::Data { block: 1, data }) => {
                        let _ = s.send_to(&rc::ack(1), from);
                        if data == token.as_bytes() {
                            ready = true;
                        }
                    }
                    // with relative directories "is it up" must not depend on "does it resolve them as it should" (that is
                    // what the cell is about): any answer of a live process counts (shards have private port spaces)
                    Ok(RPacket::Error { .. }) if relparent => ready = true,
                    _ => {}
                }
            }
        }
        if ready {
            // let the readiness transfers end (their workers exit right after the ACK)
            let status = format!("/proc/{}/status", p.child.id());
            let threads = || std::fs::read_to_string(&status).ok().and_then(|s| s.lines().find_map(|l| l.strip_prefix("Threads:").and_then(|v| v.trim().parse::<usize>().ok()))).unwrap_or(1);
            let t1 = Instant::now();
            while threads() > 1 && t1.elapsed() < Duration::from_millis(500) {
                std::thread::sleep(Duration::from_micros(200));
            }
            if let Ok(Some(_)) = p.child.try_wait() {
                ready = false;
            }
        }
        if ready {
            return Ok(p);
        }
    }
    Err("tftpd did not come up on 10 attempts".into())
}

/// canonical probe: a plain RRQ of the 3-block file, carried to its end. Ok(()) or Err(reason)
pub fn liveness_probe(addr: SocketAddr) -> Result<(), String> {
    let s = udp_client(addr.is_ipv6());
    liveness_probe_from(&s, addr)
}

pub fn liveness_probe_from(s: &UdpSocket, addr: SocketAddr) -> Result<(), String> {
    // drain whatever earlier datagrams left in this socket
    let _ = s.set_nonblocking(true);
    let mut junk = vec![0u8; 70000];
    while s.recv_from(&mut junk).is_ok() {}
    let _ = s.set_nonblocking(false);
    let _ = s.set_read_timeout(Some(BACKSTOP));
    let _ = s.send_to(&rc::request(false, b"probe.bin", &[]), addr);
    let want = probe_content();
    let mut got: Vec<u8> = vec![];
    let mut expect = 1u16;
    let mut buf = vec![0u8; 2048];
    loop {
        match s.recv_from(&mut buf) {
            Err(_) => return Err(format!("no answer within {} ms (after {} bytes)", BACKSTOP.as_millis(), got.len())),
            Ok((n, from)) => match rc::decode(&buf[..n]) {
                Ok(RPacket::Data { block, data }) => {
                    if block == expect {
                        got.extend_from_slice(&data);
                        let _ = s.send_to(&rc::ack(block), from);
                        expect += 1;
                        if data.len() < 512 {
                            break;
                        }
                    }
                }
                Ok(RPacket::Error { code, msg }) => return Err(format!("probe refused: ERROR {code} {}", String::from_utf8_lossy(&msg))),
                _ => return Err(format!("unexpected answer {}", rc::describe(&buf[..n]))),
            },
        }
    }
    if got == want {
        Ok(())
    } else {
        Err(format!("served {} bytes that differ from the {}-byte file", got.len(), want.len()))
    }
}

pub fn hostile_alphabet() -> Vec<(String, Vec<u8>)> {
    let mut v: Vec<(String, Vec<u8>)> = vec![];
    v.push(("empty".into(), vec![]));
    v.push(("1 byte 00".into(), vec![0]));
    v.push(("1 byte 01".into(), vec![1]));
    for op in [0u16, 1, 2, 3, 4, 5, 6, 7, 8, 0xFFFF] {
        let o = op.to_be_bytes().to_vec();
        v.push((format!("opcode {op} alone"), o.clone()));
        v.push((format!("opcode {op} + 00"), [o.clone(), vec![0]].concat()));
        v.push((format!("opcode {op} + 00 01"), [o.clone(), vec![0, 1]].concat()));
        v.push((format!("opcode {op} + 65505 bytes"), [o.clone(), vec![b'A'; 65505]].concat()));
    }
    v.push(("RRQ without NUL".into(), [vec![0, 1], b"abc".to_vec()].concat()));
    v.push(("RRQ name only".into(), [vec![0, 1], b"abc\0octet".to_vec()].concat()));
    v.push(("WRQ dangling option name".into(), [vec![0, 2], b"a\0octet\0blksize\0".to_vec()].concat()));
    v.push(("RRQ dangling option value".into(), [vec![0, 1], b"probe.bin\0octet\0blksize\0512".to_vec()].concat()));
    v.push(("RRQ non-UTF-8 name".into(), [vec![0, 1], vec![0xff, 0xfe, 0], b"octet\0".to_vec()].concat()));
    v.push(("RRQ empty name".into(), [vec![0, 1], b"\0octet\0".to_vec()].concat()));
    let mut many = [vec![0u8, 1], b"probe.bin\0octet\0".to_vec()].concat();
    for i in 0..500 {
        many.extend_from_slice(format!("opt{i}\0{i}\0").as_bytes());
    }
    v.push(("RRQ with 500 unknown options".into(), many));
    let mut manyk = [vec![0u8, 1], b"probe.bin\0octet\0".to_vec()].concat();
    for _ in 0..400 {
        manyk.extend_from_slice(b"blksize\0512\0");
    }
    v.push(("RRQ with 400 blksize options".into(), manyk));
    let opt_names = ["blksize", "timeout", "tsize", "windowsize"];
    let weird = ["abc", "-1", "+5", "", "1e3", "0x10", " 8", "18446744073709551616", "99999999999999999999999999"];
    for n in opt_names {
        for w in weird {
            v.push((format!("RRQ {n}={w:?}"), rc::request(false, b"probe.bin", &[(n.to_string(), w.to_string())])));
        }
    }
    let bounds: [u128; 12] = [0, 1, 7, 8, 65464, 65465, 1 << 16, 1 << 31, 1 << 32, 1 << 63, (1u128 << 64) - 1, 1u128 << 64];
    for n in opt_names {
        for b in bounds {
            v.push((format!("RRQ {n}={b}"), rc::request(false, b"probe.bin", &[(n.to_string(), b.to_string())])));
            v.push((format!("WRQ {n}={b}"), rc::request(true, b"hostile_up.bin", &[(n.to_string(), b.to_string())])));
        }
    }
    v.push(("RRQ BLKSIZE=4611686018427387904".into(), rc::request(false, b"probe.bin", &[("BLKSIZE".into(), "4611686018427387904".into())])));
    v.push(("WRQ blksize=4611686018427387904".into(), rc::request(true, b"hostile_up2.bin", &[("blksize".into(), "4611686018427387904".into())])));
    v.push(("RRQ blksize=1099511627776".into(), rc::request(false, b"probe.bin", &[("blksize".into(), "1099511627776".into())])));
    v.push(("RRQ all four huge".into(), rc::request(false, b"probe.bin", &[("blksize".into(), "18446744073709551615".into()), ("windowsize".into(), "65535".into()), ("timeout".into(), "18446744073709551615".into()), ("tsize".into(), "18446744073709551615".into())])));
    v.push(("DATA(1) to the listening port".into(), rc::data(1, b"xyz")));
    v.push(("ACK(0)".into(), rc::ack(0)));
    v.push(("OACK".into(), rc::oack(&[("blksize", "8")])));
    v.push(("ERROR".into(), rc::error(0, "x")));
    v.push(("ERROR without NUL".into(), vec![0, 5, 0, 1, b'x']));
    v.push(("plain RRQ of the probe file".into(), rc::request(false, b"probe.bin", &[])));
    v.push(("RRQ of a directory".into(), rc::request(false, b"sub", &[])));
    v.push(("WRQ into a missing directory".into(), rc::request(true, b"nodir/x", &[])));
    v.push(("RRQ with traversal".into(), rc::request(false, b"../../etc/passwd", &[])));
    // names that denote the served directory itself
    for n in [".", "./", "/", "\\", "..", "sub/..", "sub/", "./."] {
        v.push((format!("RRQ name {n:?}"), rc::request(false, n.as_bytes(), &[])));
        v.push((format!("WRQ name {n:?}"), rc::request(true, n.as_bytes(), &[])));
    }
    // names near the 512-octet request limit made of multi-byte characters (every alignment of a character boundary
    // relative to any fixed cut-off), as a missing file and as a traversal — both are quoted in the ERROR reply
    for (ch, width) in [("\u{e9}", 2usize), ("\u{20ac}", 3), ("\u{1f600}", 4)] {
        for pad in 0..width {
            for total in [470usize, 500] {
                let body = ch.repeat((total - pad) / width);
                let name = format!("{}{}", "a".repeat(pad), body);
                v.push((format!("RRQ missing name of {} octets of {width}-byte characters (offset {pad})", name.len()), rc::request(false, name.as_bytes(), &[])));
                let tr = format!("../{name}");
                v.push((format!("RRQ traversal name of {} octets of {width}-byte characters (offset {pad})", tr.len()), rc::request(false, tr.as_bytes(), &[])));
            }
        }
    }
    v
}

fn cfg_args(single: bool, read_only: bool, reldir: bool) -> Vec<&'static str> {
    let mut a = vec![];
    if reldir {
        a.push("@reldir");
    }
    if single {
        a.push("-s");
    }
    if read_only {
        a.push("-r");
    }
    a
}

/// one sequence against a fresh server. Returns (verdict clause or None, detail)
fn run_sequence(single: bool, read_only: bool, seq: &[(usize, bool)], alpha: &[(String, Vec<u8>)], after_transfer: bool, reldir: bool) -> Result<(Option<(String, String)>, String), String> {
    let mut p = spawn_tftpd(&cfg_args(single, read_only, reldir), false)?;
    let s1 = udp_client(false);
    let s2 = udp_client(false);
    if after_transfer {
        // history: the first source completes an ordinary download first, so the hostile datagrams come from an
        // endpoint that HAS owned a (finished) transfer
        let _ = s1.set_read_timeout(Some(BACKSTOP));
        let _ = s1.send_to(&rc::request(false, b"probe.bin", &[]), p.addr);
        let mut buf = vec![0u8; 2048];
        let mut expect = 1u16;
        loop {
            match s1.recv_from(&mut buf) {
                Err(_) => {
                    let alive = p.child.try_wait().ok().flatten().is_none();
                    return Err(format!("the preparatory download got no answer while waiting for DATA({expect}) (single={single}, server alive={alive})"));
                }
                Ok((n, from)) => {
                    if let Ok(RPacket::Data { block, data }) = rc::decode(&buf[..n]) {
                        if block == expect {
                            let _ = s1.send_to(&rc::ack(block), from);
                            expect += 1;
                            if data.len() < 512 {
                                break;
                            }
                        }
                    } else {
                        return Err(format!("the preparatory download was answered with {}", rc::describe(&buf[..n])));
                    }
                }
            }
        }
        // wait until the transfer thread has ended (only the listener thread is left)
        let t0 = Instant::now();
        let status = format!("/proc/{}/status", p.child.id());
        let threads = || std::fs::read_to_string(&status).ok().and_then(|s| s.lines().find_map(|l| l.strip_prefix("Threads:").and_then(|v| v.trim().parse::<usize>().ok()))).unwrap_or(1);
        while threads() > 1 && t0.elapsed() < Duration::from_secs(1) {
            std::thread::sleep(Duration::from_micros(200));
        }
    }
    for (i, other_source) in seq {
        let s = if *other_source { &s2 } else { &s1 };
        let _ = s.send_to(&alpha[*i].1, p.addr);
    }
    // the listen loop is sequential: once the probe is answered everything before it has been handled
    let mut verdict = None;
    let mut r = liveness_probe(p.addr);
    let non_request = |i: usize| alpha[i].1.len() < 2 || !matches!(u16::from_be_bytes([alpha[i].1[0], alpha[i].1[1]]), 1 | 2);
    let mut same_endpoint_probe = false;
    if r.is_ok() && after_transfer && seq.iter().all(|(i, other)| !*other && non_request(*i)) {
        // ... and so must a NEW request from the endpoint that completed a transfer before and then sent the stray datagrams
        same_endpoint_probe = true;
        r = liveness_probe_from(&s1, p.addr).map_err(|e| format!("second request from the endpoint that had completed a transfer: {e}"));
    }
    let exited = p.child.try_wait().ok().flatten();
    if let Some(st) = exited {
        verdict = Some(("terminated".to_string(), format!("tftpd exited with {st} (probe: {:?})", r.err())));
    } else if let Err(e) = r {
        // reproduce the probe once before calling it wedged
        let r2 = if same_endpoint_probe {
            // end whatever the failed attempt left open, let the server settle, then ask again from the same endpoint
            std::thread::sleep(Duration::from_millis(50));
            liveness_probe_from(&s1, p.addr)
        } else {
            liveness_probe(p.addr)
        };
        let exited = p.child.try_wait().ok().flatten();
        if let Some(st) = exited {
            verdict = Some(("terminated".to_string(), format!("tftpd exited with {st}")));
        } else if let Err(e2) = r2 {
            let clause = if e.starts_with("no answer") && e2.starts_with("no answer") { "wedged" } else { "serves-incorrectly" };
            verdict = Some((clause.to_string(), format!("process alive but the canonical RRQ fails twice: {e}; {e2}")));
        }
    }
    // what the server said to the hostile datagrams themselves (outcome class only; the vacuity guard of the evidence)
    let mut said = String::new();
    for s in [&s1, &s2] {
        let _ = s.set_nonblocking(true);
        let mut buf = vec![0u8; 2048];
        let mut kinds: Vec<String> = vec![];
        while let Ok((n, _)) = s.recv_from(&mut buf) {
            let k = match rc::decode(&buf[..n]) {
                Ok(RPacket::Error { code, .. }) => format!("ERROR{code}"),
                Ok(RPacket::Data { .. }) => "DATA".to_string(),
                Ok(RPacket::Oack(_)) => "OACK".to_string(),
                Ok(RPacket::Ack(_)) => "ACK".to_string(),
                _ => "other".to_string(),
            };
            if kinds.last() != Some(&k) {
                kinds.push(k);
            }
            if kinds.len() > 6 {
                break;
            }
        }
        said.push_str(&kinds.join(","));
        said.push('|');
    }
    Ok((verdict, said))
}

pub fn cell(spec: &Value) -> Value {
    let mut c = Counters::default();
    let alpha = hostile_alphabet();
    let single = spec["single"].as_bool().unwrap();
    let read_only = spec["read_only"].as_bool().unwrap();
    let lo = spec["lo"].as_u64().unwrap() as usize;
    let hi = (spec["hi"].as_u64().unwrap() as usize).min(alpha.len());
    let len2 = spec["len2"].as_bool().unwrap_or(false);
    let after = spec["after_transfer"].as_bool().unwrap_or(false);
    let reldir = spec["reldir"].as_bool().unwrap_or(false);
    let mut seqs: Vec<Vec<(usize, bool)>> = vec![];
    for i in lo..hi {
        if !len2 {
            seqs.push(vec![(i, false)]);
        } else {
            for j in 0..alpha.len() {
                seqs.push(vec![(i, false), (j, false)]);
                seqs.push(vec![(i, false), (j, true)]);
            }
        }
    }
    let mut outcomes: std::collections::BTreeSet<u64> = Default::default();
    let budget = Budget::new();
    for seq in seqs {
        if budget.over(&mut c) {
            break;
        }
        // a failed preparation (not a verdict) is retried with a fresh server before it is reported as a machinery problem
        let mut r = run_sequence(single, read_only, &seq, &alpha, after, reldir);
        let mut tries = 1;
        while r.is_err() && tries < 3 {
            c.add_extra("sequences_retried_after_failed_preparation", 1);
            r = run_sequence(single, read_only, &seq, &alpha, after, reldir);
            tries += 1;
        }
        c.executions += 1;
        c.states += 1;
        c.transitions += seq.len() as u64 + 1;
        c.nontrivial += 1;
        let names: Vec<String> = seq.iter().map(|(i, o)| format!("{}{}", alpha[*i].0, if *o { " (2nd source)" } else { "" })).collect();
        match r {
            Err(e) => c.machinery_errors.push(format!("C05 sequence {:?}: {e}", names)),
            Ok((None, said)) => {
                outcomes.insert(fnv64(said.as_bytes()));
            }
            Ok((Some((clause, detail)), _)) => {
                outcomes.insert(fnv64(clause.as_bytes()));
                c.violations.push(Violation {
                    property: "C05".into(),
                    clause,
                    facts: facts(&[("single", json!(single))]),
                    what: format!("[{}{}{}] after {}{:?}: {}", if single { "single-port" } else { "multi-port" }, if read_only { ",read-only" } else { "" }, if reldir { ",started inside the served directory with -d ." } else { "" }, if after { "a completed download by the same endpoint, then " } else { "" }, names, detail),
                    replay: json!({"engine": "e2_c05", "single": single, "read_only": read_only, "after_transfer": after, "reldir": reldir, "seq": seq.iter().map(|(i, o)| json!([i, o])).collect::<Vec<_>>(), "names": names}),
                    weight: seq.len() as u64 * 1000 + seq.iter().map(|x| x.0 as u64).sum::<u64>(),
                });
            }
        }
        if c.samples.is_empty() {
            c.samples.push(json!({"config": format!("single={single} read_only={read_only}"), "sequence": names, "then": "canonical RRQ of a 3-block file must be served byte-exactly and the process must be alive"}));
        }
        if c.violations.len() > 300 {
            c.trim_violations(3);
        }
    }
    for o in outcomes {
        c.trace_hashes.insert(o);
    }
    c.trim_violations(3);
    rm_rf(&format!("{}/c05", scratch_root()));
    c.to_json()
}

pub fn check(tier: Tier) -> Outcome {
    let n_alpha = hostile_alphabet().len();
    let mut cells = vec![];
    for single in [false, true] {
        for read_only in [false, true] {
            let step = 6;
            let mut lo = 0;
            while lo < n_alpha {
                cells.push(json!({"single": single, "read_only": read_only, "lo": lo, "hi": lo + step, "len2": false}));
                // the same datagrams from an endpoint that has just completed a transfer
                cells.push(json!({"single": single, "read_only": read_only, "lo": lo, "hi": lo + step, "len2": false, "after_transfer": true}));
                lo += step;
            }
            if !read_only {
                // the served directory given as "." with the process started inside it (relative paths all the way)
                let mut lo = 0;
                while lo < n_alpha {
                    cells.push(json!({"single": single, "read_only": read_only, "lo": lo, "hi": lo + step, "len2": false, "reldir": true}));
                    lo += step;
                }
            }
            if tier == Tier::Thorough {
                for i in 0..n_alpha {
                    cells.push(json!({"single": single, "read_only": read_only, "lo": i, "hi": i + 1, "len2": true}));
                }
            }
        }
    }
    let n = cells.len();
    let res = run_cells("c05", cells, &crate::pool_opts(tier));
    let mut out = Outcome::new("C05", "model_checking");
    out.absorb(res, n);
    out.rule = format!("hostile alphabet of {n_alpha} datagrams (empty, 1 byte, opcodes 0..8 and 0xFFFF with empty / short / 65505-byte tails, requests without NULs, dangling option names and values, non-UTF-8 and empty names, 500 options, non-numeric / negative / signed / hex / huge option values, every boundary value 0,1,7,8,65464,65465,2^16,2^31,2^32,2^63,2^64-1,2^64 for each of the four options in RRQ and WRQ, DATA/ACK/OACK/ERROR to the listening port, directory / missing-directory / traversal names, names denoting the served directory itself, 470- and 500-octet names of 2-, 3- and 4-byte characters at every alignment). All sequences of length 1 (also issued by an endpoint that has just completed a download; also against a server started inside its directory with -d .){} x {{multi-port, single-port}} x {{writable, read-only}}, each against a FRESH tftpd process built from /repo. After the sequence the canonical probe (plain RRQ of a 3-block file, completed) must return the right bytes and the process must still be alive. Every sequence is a distinct non-trivial case. states = sequences, transitions = datagrams + probe.", if tier == Tier::Thorough { " and 2 (second datagram from the same and from a different source)" } else { "" });
    out.assumptions = vec!["'wedged' is only reported if the probe fails twice in a row with the process alive".into(), "byte strings outside the structured alphabet are C10's business (decoder totality)".into()];
    out
}

pub fn replay(v: &Value) -> String {
    let alpha = hostile_alphabet();
    let seq: Vec<(usize, bool)> = v["seq"].as_array().unwrap().iter().map(|p| (p[0].as_u64().unwrap() as usize, p[1].as_bool().unwrap())).collect();
    let r = run_sequence(v["single"].as_bool().unwrap(), v["read_only"].as_bool().unwrap(), &seq, &alpha, v["after_transfer"].as_bool().unwrap_or(false), v["reldir"].as_bool().unwrap_or(false));
    rm_rf(&format!("{}/c05", scratch_root()));
    format!("sequence {:?} -> {:?}", v["names"], r)
}
