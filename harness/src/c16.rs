//! C16 duplicate-packets mode: E1 multiplicity monitor (e1_checks::c16_cells), copies counted on the wire against the
//! real Server, start-up acceptance of N through Config::new and the binary, and tftpc against a duplicating tftpd.

use crate::e2_c05::tftpd_path;
use crate::loopback::*;
use crate::refcodec::{self as rc, RPacket};
use crate::util::*;
use crate::{Outcome, Tier};
use serde_json::{json, Value};
use std::time::{Duration, Instant};

fn collect_copies(c: &mut Client, n1: usize) -> Vec<Vec<u8>> {
    // waits for n1 datagrams (the subject pauses 1 ms between copies), then a little longer for a surplus copy
    let mut v = vec![];
    let t0 = Instant::now();
    while v.len() < n1 && t0.elapsed() < BACKSTOP {
        if let Some((b, _)) = c.recv_wait(Duration::from_millis(20)) {
            v.push(b);
        }
    }
    let extra_wait = Duration::from_millis(4);
    while let Some((b, _)) = c.recv_wait(extra_wait) {
        v.push(b);
        if v.len() > n1 + 64 {
            break;
        }
    }
    v
}

fn wire_case(srv: &Srv, n: u8, write: bool, with_opts: bool) -> Vec<(String, String)> {
    let mut viol = vec![];
    let n1 = n as usize + 1;
    let body = content(1100, 61);
    let name = if write { format!("dupup_{}", std::process::id()) } else { "dupfile".to_string() };
    if !write {
        let p = format!("{}/{}", srv.send_dir, name);
        if !std::path::Path::new(&p).exists() {
            std::fs::write(&p, &body).unwrap();
        }
    }
    let opts: Vec<(String, String)> = if with_opts { vec![("tsize".into(), "0".into())] } else { vec![] };
    let mut c = Client::new(srv.addr);
    let desc = format!("N={n} {} {}", if write { "WRQ" } else { "RRQ" }, if with_opts { "with option" } else { "plain" });
    c.to_server(&rc::request(write, name.as_bytes(), &opts));
    let expect_same = |viol: &mut Vec<(String, String)>, got: &Vec<Vec<u8>>, want_n: usize, what: &str, pred: &dyn Fn(&RPacket) -> bool| {
        let ok_kind = got.iter().all(|b| rc::decode(b).map(|p| pred(&p)).unwrap_or(false));
        let all_same = got.windows(2).all(|w| w[0] == w[1]);
        if got.len() != want_n || !ok_kind || !all_same {
            viol.push(("wire-multiplicity".into(), format!("{desc}: expected {what} exactly {want_n} time(s), got {:?}", got.iter().map(|b| rc::describe(b)).collect::<Vec<_>>())));
            return false;
        }
        true
    };
    let mut stored_ok = true;
    if !write {
        if with_opts {
            // the OACK is sent once
            let got = collect_copies(&mut c, 1);
            if !expect_same(&mut viol, &got, 1, "the OACK", &|p| matches!(p, RPacket::Oack(_))) {
                c.to_peer_guarded(&rc::error(0, "abort"));
                quiesce();
                return viol;
            }
            c.to_peer(&rc::ack(0));
        }
        let mut data = vec![];
        for k in 1..=3u16 {
            let got = collect_copies(&mut c, n1);
            if !expect_same(&mut viol, &got, n1, &format!("DATA({k})"), &|p| matches!(p, RPacket::Data { block, .. } if *block == k)) {
                c.to_peer_guarded(&rc::error(0, "abort"));
                quiesce();
                return viol;
            }
            if let Ok(RPacket::Data { data: d, .. }) = rc::decode(&got[0]) {
                data.extend_from_slice(&d);
            }
            c.to_peer(&rc::ack(k));
        }
        if data != body {
            viol.push(("content".into(), format!("{desc}: downloaded bytes differ")));
        }
    } else {
        let got = collect_copies(&mut c, 1);
        let first_ok = if with_opts { expect_same(&mut viol, &got, 1, "the OACK", &|p| matches!(p, RPacket::Oack(_))) } else { expect_same(&mut viol, &got, 1, "ACK(0)", &|p| matches!(p, RPacket::Ack(0))) };
        if !first_ok {
            c.to_peer_guarded(&rc::error(0, "abort"));
            quiesce();
            return viol;
        }
        for k in 1..=3u16 {
            let a = (k as usize - 1) * 512;
            let b = (a + 512).min(body.len());
            c.to_peer(&rc::data(k, &body[a..b]));
            let got = collect_copies(&mut c, n1);
            if !expect_same(&mut viol, &got, n1, &format!("ACK({k})"), &|p| matches!(p, RPacket::Ack(x) if *x == k)) {
                c.to_peer_guarded(&rc::error(0, "abort"));
                stored_ok = false;
                break;
            }
        }
        quiesce();
        let p = format!("{}/{}", srv.recv_dir, name);
        if stored_ok && std::fs::read(&p).ok().as_deref() != Some(&body[..]) {
            viol.push(("content".into(), format!("{desc}: stored bytes differ")));
        }
        let _ = std::fs::remove_file(&p);
    }
    quiesce();
    viol
}

/// A peer that leaves as soon as it has seen the FIRST copy of the final ACK (like tftpc, which never dallies): the
/// remaining copies go to a closed port; the completed upload must stay in place.
fn peer_leaves_early(srv: &Srv, n: u8) -> Vec<(String, String)> {
    let mut viol = vec![];
    let body = content(700, 62);
    let name = format!("dupleave_{}", std::process::id());
    let path = format!("{}/{}", srv.recv_dir, name);
    let _ = std::fs::remove_file(&path);
    let n1 = n as usize + 1;
    {
        let mut c = Client::new(srv.addr);
        c.to_server(&rc::request(true, name.as_bytes(), &[]));
        if c.recv_wait(BACKSTOP).is_none() {
            return vec![("wire-multiplicity".into(), "peer-leaves-early: WRQ not answered".into())];
        }
        c.to_peer(&rc::data(1, &body[..512]));
        let got = collect_copies(&mut c, n1);
        if got.is_empty() {
            viol.push(("content".into(), format!("N={n} peer-leaves-early: no ACK(1)")));
        }
        c.to_peer(&rc::data(2, &body[512..]));
        // first copy of the final ACK, then leave at once (socket closed when `c` goes out of scope)
        let _ = c.recv_wait(BACKSTOP);
    }
    quiesce();
    let stored = std::fs::read(&path).ok();
    if stored.as_deref() != Some(&body[..]) {
        viol.push(("completed-upload-lost".into(), format!("N={n}: the client left after the first copy of the final ACK; the completed upload is {} afterwards", match stored { None => "missing".to_string(), Some(b) => format!("{} bytes instead of {}", b.len(), body.len()) })));
    }
    let _ = std::fs::remove_file(&path);
    viol
}

pub fn wire_cell(spec: &Value) -> Value {
    let cfg = SrvCfg::from_json(&spec["srv"]);
    let mut c = Counters::default();
    let srv = match server_for(&cfg) {
        Ok(s) => s,
        Err(e) => return json!({"machinery_error": format!("server start: {e}")}),
    };
    for write in [false, true] {
        if write && cfg.read_only {
            continue;
        }
        for with_opts in [false, true] {
            let v = wire_case(&srv, cfg.dup, write, with_opts);
            c.executions += 1;
            c.states += 1;
            c.transitions += 8;
            c.nontrivial += 1;
            c.trace_hashes.insert(fnv64(format!("{}{write}{with_opts}", cfg.key()).as_bytes()));
            for (clause, what) in v {
                c.violations.push(Violation { property: "C16".into(), clause, facts: facts(&[("n", json!(cfg.dup))]), what: format!("[{}] {}", cfg.brief(), what), replay: json!({"engine": "c16_wire", "srv": cfg.to_json()}), weight: cfg.dup as u64 });
            }
        }
    }
    for _rep in 0..3 {
        if cfg.read_only {
            break;
        }
        let v = peer_leaves_early(&srv, cfg.dup);
        c.executions += 1;
        c.states += 1;
        c.transitions += 6;
        for (clause, what) in v {
            c.violations.push(Violation { property: "C16".into(), clause, facts: facts(&[("n", json!(cfg.dup)), ("single", json!(cfg.single))]), what: format!("[{}] {}", cfg.brief(), what), replay: json!({"engine": "c16_wire", "srv": cfg.to_json()}), weight: cfg.dup as u64 });
        }
    }
    // every kind of ERROR reply of the listener is sent once: missing file, escaping name, read-only server, existing file
    // without --overwrite, stray non-request packet
    let _ = std::fs::write(format!("{}/dup_exists", srv.recv_dir), b"already here");
    let mut refusals: Vec<(&str, Vec<u8>, Option<u16>)> = vec![
        ("RRQ for a missing file", rc::request(false, b"missing_file_xyz", &[]), Some(1)),
        ("RRQ for an escaping name", rc::request(false, b"../dup_escape", &[]), Some(2)),
        ("stray ACK to the listening port", rc::ack(1), None),
    ];
    if cfg.read_only {
        refusals.push(("WRQ to a read-only server", rc::request(true, b"dup_ro", &[]), Some(2)));
        refusals.push(("WRQ with an option to a read-only server", rc::request(true, b"dup_ro", &[("blksize".into(), "8".into())]), Some(2)));
    } else if !cfg.overwrite {
        refusals.push(("WRQ for an existing file without --overwrite", rc::request(true, b"dup_exists", &[]), Some(6)));
    }
    for (what, bytes, code) in refusals {
        let mut cl = Client::new(srv.addr);
        cl.to_server(&bytes);
        let got = collect_copies(&mut cl, 1);
        c.executions += 1;
        c.states += 1;
        c.transitions += 1;
        let ok = got.len() == 1 && match rc::decode(&got[0]) {
            Ok(RPacket::Error { code: k, .. }) => code.map(|want| want == k).unwrap_or(true),
            _ => false,
        };
        if !ok {
            c.violations.push(Violation { property: "C16".into(), clause: "wire-multiplicity".into(), facts: facts(&[("n", json!(cfg.dup))]), what: format!("[{}] {what}: the ERROR reply must be sent exactly once, got {:?}", cfg.brief(), got.iter().map(|b| rc::describe(b)).collect::<Vec<_>>()), replay: json!({"engine": "c16_wire", "srv": cfg.to_json()}), weight: 1 });
        }
        quiesce();
    }
    let _ = std::fs::remove_file(format!("{}/dup_exists", srv.recv_dir));
    c.samples.push(json!({"srv": cfg.brief(), "wire": "copies of every DATA / ACK counted at a reference client, OACK / ACK 0 / ERROR counted once"}));
    c.to_json()
}

pub fn config_cell(_spec: &Value) -> Value {
    // Config::new for every N in 0..=300 and some non-numeric values; binary exit status for 254 / 255 / 256
    let mut c = Counters::default();
    for n in 0..=300u32 {
        let args = vec!["tftpd".to_string(), "--duplicate-packets".to_string(), n.to_string()];
        let r = std::panic::catch_unwind(|| tftpd::Config::new(args.into_iter()).map(|c| c.duplicate_packets));
        c.executions += 1;
        c.states += 1;
        c.transitions += 1;
        let bad = match r {
            Err(_) => Some("panicked".to_string()),
            Ok(Ok(v)) => {
                if n >= 255 {
                    Some(format!("accepted (as {v})"))
                } else if v as u32 != n {
                    Some(format!("parsed as {v}"))
                } else {
                    c.nontrivial += 1;
                    None
                }
            }
            Ok(Err(_)) => if n < 255 { Some("rejected".to_string()) } else { None },
        };
        if let Some(b) = bad {
            c.violations.push(Violation { property: "C16".into(), clause: "startup-range".into(), facts: facts(&[("n", json!(n))]), what: format!("--duplicate-packets {n}: {b}"), replay: json!({"engine": "c16_cfg", "n": n}), weight: n as u64 });
        }
    }
    for s in ["x", "-1", "", "1.5", "0x10"] {
        let args = vec!["tftpd".to_string(), "--duplicate-packets".to_string(), s.to_string()];
        c.executions += 1;
        c.transitions += 1;
        if let Ok(Ok(_)) = std::panic::catch_unwind(|| tftpd::Config::new(args.into_iter()).map(|c| c.duplicate_packets)) {
            c.violations.push(Violation { property: "C16".into(), clause: "startup-range".into(), facts: facts(&[("n", json!(s))]), what: format!("--duplicate-packets {s:?} accepted"), replay: json!({"engine": "c16_cfg", "n": s}), weight: 1 });
        }
    }
    // the real binary: 254 starts, 255 and 256 exit with an error
    if std::path::Path::new(&tftpd_path()).exists() {
        for (n, must_run) in [(254u32, true), (255, false), (256, false)] {
            let dir = format!("{}/c16bin", scratch_root());
            let _ = std::fs::create_dir_all(&dir);
            // (a start-up failure of the accepted value is retried on another port: two shards may pick the same free port)
            let mut status = None;
            let mut spawn_err = None;
            for _attempt in 0..5 {
                let port = free_port(false);
                let mut cmd = std::process::Command::new(tftpd_path());
                cmd.args(["-p", &port.to_string(), "-d", &dir, "--duplicate-packets", &n.to_string()]).stdout(std::process::Stdio::null()).stderr(std::process::Stdio::null());
                die_with_parent(&mut cmd);
                let mut child = match cmd.spawn() {
                    Ok(ch) => ch,
                    Err(e) => {
                        spawn_err = Some(format!("spawn tftpd: {e}"));
                        break;
                    }
                };
                let t0 = Instant::now();
                status = None;
                while t0.elapsed() < Duration::from_millis(if must_run { 300 } else { 3000 }) {
                    if let Ok(Some(st)) = child.try_wait() {
                        status = Some(st);
                        break;
                    }
                    std::thread::sleep(Duration::from_millis(5));
                }
                let _ = child.kill();
                let _ = child.wait();
                if !(must_run && status.is_some()) {
                    break;
                }
            }
            if let Some(e) = spawn_err {
                c.machinery_errors.push(e);
                continue;
            }
            c.executions += 1;
            c.states += 1;
            c.transitions += 1;
            c.nontrivial += 1;
            let bad = match (must_run, status) {
                (true, Some(st)) => Some(format!("tftpd --duplicate-packets {n} exited at start-up with {st} (5 attempts on different ports)")),
                (false, None) => Some(format!("tftpd --duplicate-packets {n} keeps running; it must be rejected at start-up")),
                (false, Some(st)) if st.success() => Some(format!("tftpd --duplicate-packets {n} exited with success status")),
                _ => None,
            };
            if let Some(b) = bad {
                c.violations.push(Violation { property: "C16".into(), clause: "startup-range".into(), facts: facts(&[("n", json!(n))]), what: b, replay: json!({"engine": "c16_cfg", "n": n}), weight: n as u64 });
            }
        }
    } else {
        c.machinery_errors.push(format!("{} missing", tftpd_path()));
    }
    c.samples.push(json!({"config": "Config::new with --duplicate-packets N for N = 0..=300 and non-numeric values; tftpd binary with 254, 255, 256"}));
    c.trace_hashes.insert(1);
    c.trace_hashes.insert(2);
    c.to_json()
}

pub fn check(tier: Tier) -> Outcome {
    let mut out = Outcome::new("C16", "model_checking");
    let cells = crate::e1_checks::c16_cells(tier);
    let n = cells.len();
    let res = run_cells("modea", cells, &crate::pool_opts(tier));
    out.absorb(res, n);
    // two real Workers in duplicate mode are covered by tftpc <-> tftpd below; wire counts against the real Server:
    let mut cells = vec![];
    for dup in 0..=3u8 {
        for single in [false, true] {
            let mut s = SrvCfg::basic();
            s.dup = dup;
            s.single = single;
            s.overwrite = true;
            cells.push(json!({"srv": s.to_json()}));
        }
    }
    // the mode combined with the other server switches (read-only; no --overwrite)
    for dup in [1u8, 2] {
        for single in [false, true] {
            for (read_only, overwrite) in [(true, false), (false, false)] {
                let mut s = SrvCfg::basic();
                s.dup = dup;
                s.single = single;
                s.read_only = read_only;
                s.overwrite = overwrite;
                cells.push(json!({"srv": s.to_json()}));
            }
        }
    }
    let n = cells.len();
    let res = run_cells("c16_wire", cells, &crate::pool_opts(tier));
    out.absorb(res, n);
    let res = run_cells("c16_cfg", vec![json!({})], &crate::pool_opts(tier));
    out.absorb(res, 1);
    // tftpc against a duplicating tftpd, both directions (the server's own sender / receiver facing duplicates)
    let mut cells = vec![];
    for dup in [1u64, 2, 3] {
        for single in [false, true] {
            let mut cases = vec![json!({"len": 1500, "blk": 512, "ws": 1, "upload": false, "path": "plain"}), json!({"len": 1500, "blk": 512, "ws": 1, "upload": true, "path": "plain"})];
            if tier == Tier::Thorough || dup == 1 {
                cases.push(json!({"len": 5000, "blk": 512, "ws": 3, "upload": false, "path": "plain"}));
                cases.push(json!({"len": 5000, "blk": 512, "ws": 3, "upload": true, "path": "plain"}));
            }
            cells.push(json!({"property": "C16", "ipv6": false, "single": single, "dup": dup, "cases": cases}));
        }
    }
    let n = cells.len();
    let res = run_cells("c14_bin", cells, &crate::pool_opts(tier));
    out.absorb(res, n);
    out.rule = "E1 Mode A with repeat = N+1 for N in {0,1,2,3} x both roles x windowsize 1..3 x 5 lengths, D <= 1, with peers that answer once and peers that answer every copy, N = 254 on a 2-block transfer per role: multiplicity monitor (every burst is a concatenation of groups of exactly N+1 identical datagrams, DATA and ACK k>=1). E2: the real Server with --duplicate-packets N in {0..3}, both port modes: copies of each DATA / ACK counted at a reference client, OACK / ACK 0 / every kind of ERROR refusal counted once (also on read-only and no-overwrite servers), byte identity. Config::new for every N in 0..=300 and non-numeric values; the tftpd binary started with 254 (runs), 255 and 256 (must exit with an error). tftpc against a duplicating tftpd in both directions. states = executions, non-trivial = executions with a distinct trace.".into();
    out.assumptions = vec!["surplus copies are looked for during 4 ms after the expected ones (the subject pauses 1 ms between copies); a surplus copy seen is a definite violation, an unseen one is not proof of absence — E1 counts exactly".into()];
    out
}
