//! verif — model-checking harness for rs-tftpd. See /verif/DESIGN.md.
//!
//!   verif check <ID> <quick|thorough>     run the check for one property, write evidence, exit 0/1/2
//!   verif worker <engine>                 (internal) shard process
//!   verif replay <file>                   re-execute a recorded violation / known finding

mod c07_e2;
mod c13;
mod c14;
mod c16;
mod e1_checks;
mod e1b_checks;
mod e2_c03;
mod e2_c05;
mod e2_c06;
mod e2_c09;
mod e2_c12;
mod e2_xfer;
mod e3_codec;
mod e3_config;
mod e3_window;
mod loopback;
mod modea;
mod modeb;
mod monitors;
mod refcodec;
mod sim;
mod util;

use serde_json::{json, Map, Value};
use std::time::{Duration, Instant};
use util::*;

#[derive(Clone, Copy, PartialEq, Eq, Debug)]
pub enum Tier {
    Quick,
    Thorough,
}

impl Tier {
    pub fn name(&self) -> &'static str {
        match self {
            Tier::Quick => "quick",
            Tier::Thorough => "thorough",
        }
    }
}

pub fn wall_cap(tier: Tier) -> Duration {
    let default = if tier == Tier::Quick { 90 } else { 3600 };
    Duration::from_secs(std::env::var("VERIF_WALL_CAP").ok().and_then(|s| s.parse().ok()).unwrap_or(default))
}

static START: std::sync::OnceLock<Instant> = std::sync::OnceLock::new();

pub fn pool_opts(tier: Tier) -> PoolOpts {
    let start = *START.get_or_init(Instant::now);
    PoolOpts { nproc: nproc(), deadline: start + wall_cap(tier), cell_limit: wall_cap(tier), exe: None }
}

pub fn ovf_exe() -> String {
    format!("{}/harness/target/ovf/verif", verif_dir())
}

/// Runs cells through the overflow-checked build of the harness (subject arithmetic panics on overflow as in a debug build).
pub fn run_cells_ovf(engine: &str, cells: Vec<Value>, tier: Tier) -> Vec<Option<Value>> {
    if !std::path::Path::new(&ovf_exe()).exists() {
        return cells.iter().map(|_| Some(json!({"machinery_error": "overflow-checked harness binary missing (./check build thorough)"}))).collect();
    }
    let mut o = pool_opts(tier);
    o.exe = Some(ovf_exe());
    run_cells(engine, cells, &o)
}

pub struct Outcome {
    pub property: String,
    pub level: &'static str,
    pub counters: Counters,
    pub rule: String,
    pub assumptions: Vec<String>,
    pub cells_total: usize,
    pub cells_done: usize,
    pub space: Map<String, Value>,
}

impl Outcome {
    pub fn new(property: &str, level: &'static str) -> Outcome {
        Outcome { property: property.into(), level, counters: Counters::default(), rule: String::new(), assumptions: vec![], cells_total: 0, cells_done: 0, space: Map::new() }
    }
    /// merge pool results
    pub fn absorb(&mut self, res: Vec<Option<Value>>, ncells: usize) {
        self.cells_total += ncells;
        for r in res {
            match r {
                None => {}
                Some(v) => {
                    if v.get("timeout").and_then(|t| t.as_bool()) == Some(true) {
                        // the cell was still running when the wall-clock cap of the tier was reached: a cap, reported as
                        // such (exhaustive = false), not a machinery failure and not a verdict
                        self.counters.capped.push(format!("wall-clock cap: {}", v["machinery_error"].as_str().unwrap_or("cell stopped").chars().take(160).collect::<String>()));
                    } else if let Some(e) = v.get("machinery_error") {
                        self.counters.machinery_errors.push(e.as_str().unwrap_or("?").to_string());
                    } else {
                        self.cells_done += 1;
                        self.counters.merge(Counters::from_json(&v));
                    }
                }
            }
        }
    }
    pub fn absorb_counters(&mut self, c: Counters) {
        self.cells_total += 1;
        self.cells_done += 1;
        self.counters.merge(c);
    }
}

fn worker_dispatch(engine: &str) -> Box<dyn Fn(&Value) -> Value> {
    match engine {
        "modea" => Box::new(e1_checks::modea_cell),
        "modeb" => Box::new(e1b_checks::modeb_cell),
        "c14_inproc" => Box::new(c14::inproc_cell),
        "c14_bin" => Box::new(c14::binary_cell),
        "c14_pair" => Box::new(c14::pair_cell),
        "c14_relay" => Box::new(c14::relay_cell),
        "c16_wire" => Box::new(c16::wire_cell),
        "c16_cfg" => Box::new(c16::config_cell),
        "c07_e2" => Box::new(c07_e2::cell),
        "c13_fsize" => Box::new(c13::fsize_cell),
        "c13_two" => Box::new(c13::two_cell),
        "c13_e2" => Box::new(c13::e2_cell),
        "c13_e2_abort" => Box::new(c13::e2_abort_cell),
        "e2_xfer" => Box::new(e2_xfer::cell),
        "e2_wrap" => Box::new(e2_xfer::wrap_cell),
        "c03" => Box::new(e2_c03::cell),
        "c05" => Box::new(e2_c05::cell),
        "c06" => Box::new(e2_c06::cell),
        "c09" => Box::new(e2_c09::cell),
        "c12" => Box::new(e2_c12::cell),
        "c10" => Box::new(e3_codec::c10_cell),
        "c11" => Box::new(e3_codec::c11_cell),
        "c17" => Box::new(e3_config::cell),
        "c18" => Box::new(e3_window::cell),
        _ => Box::new(|_| json!({"machinery_error": "unknown engine"})),
    }
}

fn run_check(id: &str, tier: Tier) -> Option<Outcome> {
    Some(match id {
        "C01" => e1_checks::c01_check(tier),
        "C02" => e1_checks::c02_check(tier),
        "C03" => e2_c03::check(tier),
        "C04" => e1b_checks::c04_check(tier),
        "C05" => e2_c05::check(tier),
        "C06" => e2_c06::check(tier),
        "C09" => e2_c09::check(tier),
        "C12" => e2_c12::check(tier),
        "C13" => c13::check(tier),
        "C15" => e1b_checks::c15_check(tier),
        "C07" => e1_checks::c07_check(tier),
        "C08" => e1_checks::c08_check(tier),
        "C14" => c14::check(tier),
        "C16" => c16::check(tier),
        "C10" => e3_codec::c10_check(tier),
        "C11" => e3_codec::c11_check(tier),
        "C17" => e3_config::check(tier),
        "C18" => e3_window::check(tier),
        _ => return None,
    })
}

fn main() {
    let args: Vec<String> = std::env::args().collect();
    START.get_or_init(Instant::now);
    if args.len() >= 3 && args[1] == "worker" {
        if util::REAL_SOCKET_ENGINES.contains(&args[2].as_str()) {
            util::isolate_network();
        }
        let f = worker_dispatch(&args[2]);
        worker_loop(&*f);
        return;
    }
    if args.len() >= 3 && args[1] == "replay" {
        std::process::exit(replay(&args[2]));
    }
    if args.len() >= 4 && args[1] == "check" {
        let tier = if args[3] == "thorough" { Tier::Thorough } else { Tier::Quick };
        std::process::exit(check_main(&args[2], tier));
    }
    eprintln!("usage: verif check <ID> <quick|thorough> | verif replay <file>");
    std::process::exit(2);
}

fn replay(path: &str) -> i32 {
    let Ok(s) = std::fs::read_to_string(path) else {
        eprintln!("cannot read {path}");
        return 2;
    };
    let Ok(v) = serde_json::from_str::<Value>(&s) else {
        eprintln!("not json: {path}");
        return 2;
    };
    let r = &v["replay"];
    println!("property={} clause={} what={}", v["property"], v["clause"], v["what"]);
    if !matches!(r["engine"].as_str().unwrap_or(""), "modea" | "modeb" | "c13_two" | "e3_codec" | "e3_config" | "e3_window") {
        util::isolate_network();
    }
    let text = match r["engine"].as_str().unwrap_or("") {
        "modea" => e1_checks::replay(r),
        "modeb" => e1b_checks::replay(r),
        "c14" | "c14_bin" | "c14_pair" => c14::replay(r),
        "c14_relay" => format!("{}", c14::relay_cell(&r["spec"])["violations"]),
        "c07_e2" => c07_e2::replay(r),
        "c13_two" => c13::replay_two(r),
        "c13_e2" => c13::replay_e2(r),
        "e2_xfer" => e2_xfer::replay(r),
        "e2_wrap" => format!("{}", e2_xfer::wrap_cell(&r["spec"])["violations"]),
        "e2_c03" => e2_c03::replay(r),
        "e2_c05" => e2_c05::replay(r),
        "e2_c06" => e2_c06::replay(r),
        "e2_c09" => e2_c09::replay(r),
        "e2_c12" => e2_c12::replay(r),
        "e3_codec" => e3_codec::replay(r),
        "e3_config" => e3_config::replay(r),
        "e3_window" => e3_window::replay(r),
        other => format!("no replayer for engine {other:?}"),
    };
    println!("{text}");
    0
}

fn check_main(id: &str, tier: Tier) -> i32 {
    // per-cell time slice of the real-socket engines (a cell that uses it up stops and reports "capped"): 45 s in the quick
    // tier, 300 s in the thorough tier; shards inherit the setting
    if tier == Tier::Thorough && std::env::var("VERIF_CELL_SECS").is_err() {
        std::env::set_var("VERIF_CELL_SECS", "300");
    }
    let vd = verif_dir();
    let t0 = Instant::now();
    let seed: i64 = std::env::var("VERIF_SEED").ok().and_then(|s| s.parse().ok()).unwrap_or(0);
    let Some(mut out) = run_check(id, tier) else {
        eprintln!("no check for {id}");
        return 2;
    };
    out.counters.trim_violations(3);
    let known = load_known();
    let mut new_v: Vec<Violation> = vec![];
    let mut known_hits: std::collections::BTreeMap<String, (KnownEntry, Violation, u64)> = Default::default();
    for v in &out.counters.violations {
        if v.property != id {
            continue;
        }
        match known_match(&known, v) {
            Some(k) => {
                let e = known_hits.entry(k.id.clone()).or_insert((k.clone(), v.clone(), 0));
                e.2 += 1;
                if v.weight < e.1.weight {
                    e.1 = v.clone();
                }
            }
            None => new_v.push(v.clone()),
        }
    }
    new_v.sort_by_key(|v| v.weight);
    let _ = std::fs::create_dir_all(format!("{vd}/replays"));
    let _ = std::fs::create_dir_all(format!("{vd}/evidence"));
    let mut printed = std::collections::BTreeSet::new();
    let mut nprint = 0;
    for v in &new_v {
        if !printed.insert(v.group_key()) {
            continue;
        }
        nprint += 1;
        let path = format!("{vd}/replays/{id}-{}-{nprint}.json", tier.name());
        let _ = std::fs::write(&path, serde_json::to_string_pretty(&v.to_json()).unwrap());
        println!("VIOLATION property={id} replay={path}");
        println!("  clause={} {}", v.clause, v.what);
        if nprint >= 20 {
            break;
        }
    }
    for (kid, (k, v, n)) in &known_hits {
        let path = format!("{vd}/replays/known-{kid}.json");
        let _ = std::fs::write(&path, serde_json::to_string_pretty(&v.to_json()).unwrap());
        println!("KNOWN-FINDING: property={id} {} [{kid}; re-observed in {n} recorded executions; lightest replay {path}]", k.what);
    }
    let c = &out.counters;
    let complete = out.cells_done == out.cells_total && c.capped.is_empty() && c.machinery_errors.is_empty();
    let mut cov = Map::new();
    cov.insert("states".into(), json!(c.states.max(1)));
    cov.insert("transitions".into(), json!(c.transitions.max(1)));
    cov.insert("traces_validated_against_impl".into(), json!(c.executions));
    cov.insert("evaluations".into(), json!(c.executions.max(1)));
    cov.insert("distinct_nontrivial".into(), json!(c.nontrivial));
    let distinct = (c.trace_hashes.len() as u64).max(c.extra.get("distinct_traces").and_then(|x| x.as_u64()).unwrap_or(0));
    cov.insert("distinct_outcomes".into(), json!(distinct));
    cov.insert("rule".into(), json!(out.rule));
    cov.insert("samples".into(), json!(if c.samples.is_empty() { vec![json!("(none recorded)")] } else { c.samples.clone() }));
    cov.insert("exhaustive".into(), json!(complete));
    cov.insert("cells_total".into(), json!(out.cells_total));
    cov.insert("cells_completed".into(), json!(out.cells_done));
    cov.insert("caps_hit".into(), json!(c.capped));
    cov.insert("determinism_reruns".into(), json!(c.determinism_reruns));
    cov.insert("machinery_errors".into(), json!(c.machinery_errors.iter().take(10).collect::<Vec<_>>()));
    cov.insert("explanation".into(), json!("every execution is an execution of the implementation (no abstract model): traces_validated_against_impl == executions"));
    for (k, v) in &out.space {
        cov.insert(k.clone(), v.clone());
    }
    for (k, v) in &c.extra {
        cov.insert(k.clone(), v.clone());
    }
    let ev = json!({
        "property_id": id, "tier": tier.name(), "seed": seed, "level": out.level,
        "coverage": cov, "assumptions": out.assumptions, "wall_s": t0.elapsed().as_secs_f64(),
        "violations": new_v.len(),
        "known_findings_reobserved": known_hits.iter().map(|(k, (_, _, n))| json!({"id": k, "executions": n})).collect::<Vec<_>>(),
    });
    let evp = format!("{vd}/evidence/{id}.json");
    if std::fs::write(&evp, serde_json::to_string_pretty(&ev).unwrap()).is_err() {
        eprintln!("cannot write {evp}");
        return 2;
    }
    println!(
        "{id} {}: executions={} states={} transitions={} distinct_outcomes={} cells={}/{} violations={} known={} wall={:.1}s{}",
        tier.name(), c.executions, c.states, c.transitions, distinct, out.cells_done, out.cells_total, new_v.len(), known_hits.len(), t0.elapsed().as_secs_f64(),
        if complete { "" } else { " (NOT exhaustive: cap or error)" }
    );
    if let Some(n) = c.extra.get("unreproduced_anomalies").and_then(|x| x.as_u64()) {
        println!("NOTE: {n} anomalous observation(s) over real sockets did not recur when the same cell was run again and are not reported as violations (see unreproduced_* in the evidence): {}", c.extra.get("unreproduced_example").and_then(|x| x.as_str()).unwrap_or(""));
    }
    if !new_v.is_empty() {
        return 1;
    }
    if !c.machinery_errors.is_empty() {
        for e in c.machinery_errors.iter().take(5) {
            println!("MACHINERY-ERROR: {e}");
        }
        return 2;
    }
    0
}
