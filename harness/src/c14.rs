//! C14 bundled client <-> server: boundary grid with the in-process Client/Server pair, a covering sub-grid with the
//! real tftpc/tftpd binaries (IPv4/IPv6, path styles, refusals), and two real Workers joined by the simulated
//! network with every placement of one fault.

use crate::e2_c05::{spawn_tftpd, tftpc_path};
use crate::loopback::*;
use crate::modea::{e1_dir, Role, Trace, XCfg};
use crate::monitors;
use crate::sim::*;
use crate::util::*;
use crate::{Outcome, Tier};
use serde_json::{json, Value};
use std::process::{Command, Stdio};
use std::time::{Duration, Instant};
use tftpd::{Client as TClient, ClientConfig, Worker};

fn body(len: usize) -> Vec<u8> {
    content(len, 31 + len as u64)
}

/// Runs the in-process bundled client with a deadline. Ok(Ok) = run() returned Ok, Ok(Err(msg)) = returned Err, Err = hung
fn run_client(args: Vec<String>, deadline: Duration) -> Result<Result<(), String>, String> {
    let (tx, rx) = std::sync::mpsc::channel();
    std::thread::spawn(move || {
        let r = (|| -> Result<(), String> {
            let cfg = ClientConfig::new(args.into_iter()).map_err(|e| format!("config: {e}"))?;
            let mut c = TClient::new(&cfg).map_err(|e| format!("client: {e}"))?;
            c.run().map_err(|e| e.to_string())
        })();
        let _ = tx.send(r);
    });
    match rx.recv_timeout(deadline) {
        Ok(r) => Ok(r),
        Err(_) => Err("the client did not return (hung waiting for the server)".into()),
    }
}

fn inproc_case(srv: &Srv, cfg: &SrvCfg, upload: bool, len: usize, blk: usize, ws: usize, timeout: u64, seq: usize) -> (String, Vec<(String, String)>) {
    let mut viol = vec![];
    let cdir = format!("{}/cl{}", srv.root, seq % 4);
    let _ = std::fs::create_dir_all(&cdir);
    let fname = format!("f_{}_{}", std::process::id(), seq);
    let data = body(len);
    let desc = format!("{} len={len} blk={blk} ws={ws} timeout={timeout}", if upload { "upload" } else { "download" });
    let ip = srv.addr.ip().to_string();
    let port = srv.addr.port().to_string();
    let mut args: Vec<String> = vec!["tftpc".into()];
    // an older, LONGER file already sits at the destination (the server runs with --overwrite): it must be replaced entirely
    let stale = content(len + 777, 5);
    if upload {
        std::fs::write(format!("{cdir}/{fname}"), &data).unwrap();
        std::fs::write(format!("{}/{fname}", srv.recv_dir), &stale).unwrap();
        args.push(format!("{cdir}/{fname}"));
        args.push("-u".into());
    } else {
        std::fs::write(format!("{}/{fname}", srv.send_dir), &data).unwrap();
        std::fs::write(format!("{cdir}/{fname}"), &stale).unwrap();
        args.push(fname.clone());
        args.push("-d".into());
        args.extend(["-rd".into(), cdir.clone()]);
    }
    args.extend(["-i".into(), ip, "-p".into(), port, "-b".into(), blk.to_string(), "-w".into(), ws.to_string(), "-t".into(), timeout.to_string()]);
    let r = run_client(args, Duration::from_secs(20));
    quiesce();
    let summary;
    match r {
        Err(h) => {
            summary = "hung".to_string();
            viol.push(("client-hangs".into(), format!("{desc}: {h}")));
        }
        Ok(res) => {
            summary = format!("{:?}", res.is_ok());
            let (src, dst) = if upload { (format!("{cdir}/{fname}"), format!("{}/{fname}", srv.recv_dir)) } else { (format!("{}/{fname}", srv.send_dir), format!("{cdir}/{fname}")) };
            let a = std::fs::read(&src).ok();
            let b = std::fs::read(&dst).ok();
            if a.as_deref() != Some(&data[..]) {
                viol.push(("source-changed".into(), format!("{desc}: the source file changed or vanished")));
            }
            if b.as_deref() != Some(&data[..]) {
                viol.push(("not-identical".into(), format!("{desc}: destination {} has {:?} bytes, source {} (client returned {:?})", dst, b.as_ref().map(|x| x.len()), data.len(), res)));
            }
            let _ = std::fs::remove_file(&dst);
            let _ = std::fs::remove_file(&src);
        }
    }
    let _ = cfg;
    (summary, viol)
}

fn refusal_case(srv: &Srv, kind: &str, seq: usize) -> Vec<(String, String)> {
    // kinds: missing (download of a missing file), readonly (upload to a read-only server), exists (upload of an existing name, no overwrite)
    let mut viol = vec![];
    let cdir = format!("{}/clr{}", srv.root, seq);
    let _ = std::fs::remove_dir_all(&cdir);
    let _ = std::fs::create_dir_all(&cdir);
    let ip = srv.addr.ip().to_string();
    let port = srv.addr.port().to_string();
    let mut args: Vec<String> = vec!["tftpc".into()];
    let before_srv = snapshot(&srv.root);
    match kind {
        "missing" => {
            args.extend(["nope.bin".into(), "-d".into(), "-rd".into(), cdir.clone()]);
        }
        _ => {
            std::fs::write(format!("{cdir}/dup.bin"), body(300)).unwrap();
            if kind == "exists" {
                std::fs::write(format!("{}/dup.bin", srv.recv_dir), b"already here").unwrap();
            }
            args.extend([format!("{cdir}/dup.bin"), "-u".into()]);
        }
    }
    args.extend(["-i".into(), ip, "-p".into(), port]);
    let before_srv = if kind == "exists" { snapshot(&srv.root) } else { before_srv };
    let before_cl = snapshot(&cdir);
    let r = run_client(args, Duration::from_secs(10));
    quiesce();
    match r {
        Err(h) => viol.push(("client-hangs".into(), format!("refusal {kind}: {h}"))),
        Ok(Ok(())) => viol.push(("refusal-not-reported".into(), format!("refusal {kind}: the client returned Ok although the server refused the request"))),
        Ok(Err(_)) => {}
    }
    let d = tree_diff(&before_cl, &snapshot(&cdir));
    if !d.is_empty() {
        viol.push(("refusal-created-file".into(), format!("refusal {kind}: client-side tree changed: {:?}", d)));
    }
    let d2: Vec<String> = tree_diff(&before_srv, &snapshot(&srv.root)).into_iter().filter(|x| !x.contains("/clr")).collect();
    if !d2.is_empty() {
        viol.push(("refusal-server-effect".into(), format!("refusal {kind}: server-side tree changed: {:?}", d2)));
    }
    let _ = std::fs::remove_file(format!("{}/dup.bin", srv.recv_dir));
    let _ = std::fs::remove_dir_all(&cdir);
    viol
}

pub fn inproc_cell(spec: &Value) -> Value {
    let _ = std::env::set_current_dir("/"); // the client strips the leading '/' of an upload path
    let cfg = SrvCfg::from_json(&spec["srv"]);
    let mut c = Counters::default();
    let srv = match if cfg.single { server_fresh(&cfg) } else { server_for(&cfg) } {
        Ok(s) => s,
        Err(e) => return json!({"machinery_error": format!("server start: {e}")}),
    };
    let mut outcomes = std::collections::BTreeSet::new();
    let mut push = |c: &mut Counters, v: Vec<(String, String)>, replay: Value| {
        for (clause, what) in v {
            c.violations.push(Violation { property: "C14".into(), clause, facts: facts(&[("mode", json!("in-process"))]), what: format!("[{}] {}", cfg.brief(), what), replay: replay.clone(), weight: 10 });
        }
    };
    if let Some(kind) = spec["refusal"].as_str() {
        let v = refusal_case(&srv, kind, 0);
        c.executions += 1;
        c.states += 1;
        c.transitions += 1;
        c.nontrivial += 1;
        c.samples.push(json!({"srv": cfg.brief(), "refusal": kind}));
        outcomes.insert(fnv64(kind.as_bytes()));
        push(&mut c, v, json!({"engine": "c14", "srv": cfg.to_json(), "refusal": kind}));
    } else {
        let blk = spec["blk"].as_u64().unwrap() as usize;
        let wss: Vec<usize> = spec["wss"].as_array().unwrap().iter().map(|x| x.as_u64().unwrap() as usize).collect();
        let touts: Vec<u64> = spec["timeouts"].as_array().unwrap().iter().map(|x| x.as_u64().unwrap()).collect();
        let lens: Vec<usize> = spec["lens"].as_array().unwrap().iter().map(|x| x.as_u64().unwrap() as usize).collect();
        let mut seq = 0;
        let budget = Budget::new();
        'cell: for &ws in &wss {
            for &len in &lens {
                if budget.over(&mut c) {
                    break 'cell;
                }
                for &t in &touts {
                    // uploads first: on a fresh single-port server nothing has enlarged the listener's buffer yet
                    for upload in [true, false] {
                        seq += 1;
                        let (s, v) = inproc_case(&srv, &cfg, upload, len, blk, ws, t, seq);
                        c.executions += 1;
                        c.states += 1;
                        c.transitions += (len / blk) as u64 + 2;
                        c.nontrivial += 1;
                        outcomes.insert(fnv64(format!("{s}{upload}{len}{ws}").as_bytes()));
                        if c.samples.is_empty() {
                            c.samples.push(json!({"srv": cfg.brief(), "direction": if upload { "upload" } else { "download" }, "len": len, "blksize": blk, "windowsize": ws, "timeout": t, "client_returned_ok": s}));
                        }
                        push(&mut c, v, json!({"engine": "c14", "srv": cfg.to_json(), "upload": upload, "len": len, "blk": blk, "ws": ws, "timeout": t}));
                    }
                }
            }
        }
    }
    if !quiesce() {
        c.machinery_errors.push("server not quiescent at the end of a C14 cell".into());
    }
    for o in outcomes {
        c.trace_hashes.insert(o);
    }
    c.trim_violations(3);
    c.to_json()
}

// ---------------------------------------------------------------- bundled client behind a lossy relay

/// A UDP relay between the bundled client and the real server that drops the n-th datagram it sees (either direction).
fn relay(server: std::net::SocketAddr, drop_nth: usize, silent_from: usize, stop: std::sync::Arc<std::sync::atomic::AtomicBool>) -> (u16, std::thread::JoinHandle<Vec<String>>) {
    use std::net::UdpSocket;
    let front = UdpSocket::bind("127.0.0.1:0").unwrap();
    let back = UdpSocket::bind("127.0.0.1:0").unwrap();
    big_rcvbuf(&front);
    big_rcvbuf(&back);
    let port = front.local_addr().unwrap().port();
    front.set_nonblocking(true).unwrap();
    back.set_nonblocking(true).unwrap();
    let h = std::thread::spawn(move || {
        let mut log = vec![];
        let mut client: Option<std::net::SocketAddr> = None;
        let mut srv_peer = server; // listening port first, then the transfer's endpoint
        let mut n = 0usize;
        let mut buf = vec![0u8; 70000];
        while !stop.load(std::sync::atomic::Ordering::SeqCst) {
            let mut idle = true;
            if let Ok((k, from)) = front.recv_from(&mut buf) {
                idle = false;
                client = Some(from);
                n += 1;
                if n == drop_nth || n >= silent_from {
                    if log.len() < 4 {
                        log.push(format!("dropped #{n} client->server {}", crate::refcodec::describe(&buf[..k])));
                    }
                } else {
                    let _ = back.send_to(&buf[..k], srv_peer);
                }
            }
            if let Ok((k, from)) = back.recv_from(&mut buf) {
                idle = false;
                srv_peer = from;
                n += 1;
                if n == drop_nth || n >= silent_from {
                    if log.len() < 4 {
                        log.push(format!("dropped #{n} server->client {}", crate::refcodec::describe(&buf[..k])));
                    }
                } else if let Some(c) = client {
                    let _ = front.send_to(&buf[..k], c);
                }
            }
            if idle {
                std::thread::sleep(Duration::from_micros(100));
            }
        }
        log
    });
    (port, h)
}

pub fn relay_cell(spec: &Value) -> Value {
    let _ = std::env::set_current_dir("/");
    let cfg = SrvCfg::from_json(&spec["srv"]);
    let prop = spec["property"].as_str().unwrap_or("C14").to_string();
    let mut c = Counters::default();
    let srv = match if cfg.single { server_fresh(&cfg) } else { server_for(&cfg) } {
        Ok(s) => s,
        Err(e) => return json!({"machinery_error": format!("server start: {e}")}),
    };
    let upload = spec["upload"].as_bool().unwrap();
    let drop_nth = spec["drop"].as_u64().unwrap() as usize;
    // optional window options: a loss inside a wide window makes the receiver re-acknowledge once per following block
    let wopt: Option<(u64, u64)> = spec["ws"].as_u64().map(|w| (spec["blk"].as_u64().unwrap_or(8), w));
    let len = spec["len"].as_u64().unwrap_or(1300) as usize;
    let data = body(len);
    let cdir = format!("{}/relay_cl", srv.root);
    let _ = std::fs::create_dir_all(&cdir);
    let fname = format!("relay_{}_{}", std::process::id(), drop_nth);
    let stop = std::sync::Arc::new(std::sync::atomic::AtomicBool::new(false));
    // "silent_from": from that datagram on NOTHING gets through any more, in either direction (the peer has vanished)
    let silent_from = spec["silent_from"].as_u64().map(|x| x as usize).unwrap_or(usize::MAX);
    let (port, h) = relay(srv.addr, drop_nth, silent_from, stop.clone());
    let mut args: Vec<String> = vec!["tftpc".into()];
    let (src, dst);
    if upload {
        std::fs::write(format!("{cdir}/{fname}"), &data).unwrap();
        args.push(format!("{cdir}/{fname}"));
        args.push("-u".into());
        src = format!("{cdir}/{fname}");
        dst = format!("{}/{fname}", srv.recv_dir);
    } else {
        std::fs::write(format!("{}/{fname}", srv.send_dir), &data).unwrap();
        args.push(fname.clone());
        args.push("-d".into());
        args.extend(["-rd".into(), cdir.clone()]);
        src = format!("{}/{fname}", srv.send_dir);
        dst = format!("{cdir}/{fname}");
    }
    let tval = spec["t"].as_u64().unwrap_or(1);
    args.extend(["-i".into(), "127.0.0.1".into(), "-p".into(), port.to_string(), "-t".into(), tval.to_string()]);
    if let Some((blk, ws)) = wopt {
        args.extend(["-b".into(), blk.to_string(), "-w".into(), ws.to_string()]);
    }
    let t0 = Instant::now();
    let r = run_client(args, Duration::from_secs(25 + 3 * tval));
    let took = t0.elapsed().as_secs_f64();
    stop.store(true, std::sync::atomic::Ordering::SeqCst);
    let log = h.join().unwrap_or_default();
    // the relay is gone: end whatever is left on the server side, then judge
    let t1 = Instant::now();
    while workers_alive() && t1.elapsed() < Duration::from_secs(8 + 7 * tval.saturating_sub(1)) {
        std::thread::sleep(Duration::from_millis(20));
    }
    let desc = format!("{} of {len} bytes with -t {tval}{} through a relay that {} ({:?}), took {:.1} s", if upload { "upload" } else { "download" }, wopt.map(|(b, w)| format!(" -b {b} -w {w}")).unwrap_or_default(), if silent_from != usize::MAX { format!("lets nothing through from datagram #{silent_from} on") } else { format!("loses datagram #{drop_nth}") }, log, took);
    let mut viol: Vec<(String, String)> = vec![];
    match r {
        Err(hung) => viol.push(("client-hangs".into(), format!("{desc}: {hung}"))),
        Ok(_) if silent_from != usize::MAX => {
            // the peer vanished for good: the bundled client must give up after a bounded number of timeouts (it has
            // returned, so it did). What `Client::run` returns is not part of C07 (the worker thread's failure is only
            // logged; `run` returns Ok either way), and nothing else is demanded here.
        }
        Ok(res) => {
            let b = std::fs::read(&dst).ok();
            if b.as_deref() != Some(&data[..]) {
                viol.push(("not-identical-after-loss".into(), format!("{desc}: destination has {:?} bytes, source {len} (client returned {:?})", b.map(|x| x.len()), res)));
            }
        }
    }
    let _ = std::fs::remove_file(&src);
    let _ = std::fs::remove_file(&dst);
    c.executions = 1;
    c.states = 1;
    c.transitions = 8;
    c.nontrivial = 1;
    c.trace_hashes.insert(fnv64(format!("{upload}{drop_nth}{}{:?}{silent_from}{tval}", cfg.single, wopt).as_bytes()));
    c.samples.push(json!({"srv": cfg.brief(), "relay": desc}));
    for (clause, what) in viol {
        c.violations.push(Violation { property: prop.clone(), clause, facts: facts(&[("mode", json!("relay"))]), what: format!("[{}] {}", cfg.brief(), what), replay: json!({"engine": "c14_relay", "spec": spec}), weight: 40 });
    }
    if !quiesce() {
        c.machinery_errors.push("server not quiescent after a relay case".into());
    }
    c.to_json()
}

pub fn relay_cells(property: &str) -> Vec<Value> {
    let mut v = vec![];
    for single in [false, true] {
        let mut s = SrvCfg::basic();
        s.single = single;
        s.overwrite = true;
        for upload in [false, true] {
            // #1 is the request, #2 the OACK (the client has no timeout on its first receive), and for a download #3 is the
            // client's ACK 0 — still the handshake, whose loss the properties do not cover (the sender gives up on it at
            // once). The data phase starts at #3 for an upload and at #4 for a download.
            let first = if upload { 3usize } else { 4 };
            for drop in first..first + 3 {
                v.push(json!({"srv": s.to_json(), "upload": upload, "drop": drop, "property": property}));
            }
            // a wide window (12 blocks of 8 bytes, 41 blocks in all) that loses its second block: ten out-of-sequence blocks
            // follow, each answered with the same acknowledgement
            v.push(json!({"srv": s.to_json(), "upload": upload, "drop": first + 1, "property": property, "ws": 12, "blk": 8, "len": 323}));
        }
    }
    v
}

// ---------------------------------------------------------------- real binaries

fn run_tftpc(cwd: &str, args: &[String]) -> Result<(Option<i32>, String), String> {
    let mut cmd = Command::new(tftpc_path());
    cmd.args(args).current_dir(cwd).stdin(Stdio::null()).stdout(Stdio::null()).stderr(Stdio::piped());
    die_with_parent(&mut cmd);
    let mut child = cmd.spawn().map_err(|e| format!("spawn tftpc: {e}"))?;
    let t0 = Instant::now();
    loop {
        match child.try_wait() {
            Ok(Some(st)) => {
                let mut err = String::new();
                if let Some(mut e) = child.stderr.take() {
                    use std::io::Read;
                    let _ = e.read_to_string(&mut err);
                }
                return Ok((st.code(), err));
            }
            Ok(None) => {
                if t0.elapsed() > Duration::from_secs(20) {
                    let _ = child.kill();
                    let _ = child.wait();
                    return Err("tftpc did not exit within 20 s (killed)".into());
                }
                std::thread::sleep(Duration::from_millis(1));
            }
            Err(e) => return Err(format!("wait: {e}")),
        }
    }
}

pub fn binary_cell(spec: &Value) -> Value {
    let mut c = Counters::default();
    if !std::path::Path::new(&tftpc_path()).exists() {
        return json!({"machinery_error": format!("{} missing (./check build)", tftpc_path())});
    }
    let ipv6 = spec["ipv6"].as_bool().unwrap_or(false);
    let single = spec["single"].as_bool().unwrap_or(false);
    let mut extra: Vec<&str> = vec![];
    if single {
        extra.push("-s");
    }
    let refusal = spec["refusal"].as_str();
    if refusal == Some("readonly") {
        extra.push("-r");
    }
    // relative directories: tftpd is started in the parent of its directories with `-d srv` (and `-rd up`)
    let relparent = spec["relparent"].as_bool().unwrap_or(false);
    if relparent {
        extra.push("@relparent");
        if spec["rd_first"].as_bool().unwrap_or(false) {
            extra.push("-rd");
            extra.push("up");
        }
    }
    let rd_first = spec["rd_first"].as_bool().unwrap_or(false);
    if rd_first && !relparent {
        // distinct receive directory, written BEFORE -d on the command line
        extra.push("@first:-rd");
        extra.push("@first:{dir}/up");
    }
    let dupn = spec["dup"].as_u64().unwrap_or(0);
    let dups = dupn.to_string();
    if dupn > 0 {
        extra.push("--duplicate-packets");
        extra.push(&dups);
    }
    let p = match spawn_tftpd(&extra, ipv6) {
        Ok(p) => p,
        Err(e) => return json!({"machinery_error": e}),
    };
    let sdir = format!("{}/srv", p.dir);
    // where uploads are stored
    let rdir = if rd_first { format!("{}/up", p.dir) } else { sdir.clone() };
    if rd_first {
        // distinct directories: a file of the upload's name lies in the SEND directory (e.g. the same file was offered for
        // download before); it is no obstacle for the upload and must not be touched by it
        let _ = std::fs::write(format!("{sdir}/up.bin"), b"offered for download");
    }
    let cdir = format!("{}/client", p.dir);
    let _ = std::fs::create_dir_all(format!("{cdir}/sub"));
    let _ = std::fs::create_dir_all(format!("{cdir}/rd"));
    let ip = if ipv6 { "::1" } else { "127.0.0.1" };
    let port = p.addr.port().to_string();
    let prop: String = spec["property"].as_str().unwrap_or("C14").to_string();
    let mut viol: Vec<(String, String)> = vec![];
    let cases = spec["cases"].as_array().cloned().unwrap_or_default();
    for case in &cases {
        let len = case["len"].as_u64().unwrap_or(1000) as usize;
        let blk = case["blk"].as_u64().unwrap_or(512);
        let ws = case["ws"].as_u64().unwrap_or(1);
        let upload = case["upload"].as_bool().unwrap_or(false);
        let style = case["path"].as_str().unwrap_or("plain");
        let data = body(len);
        let desc = format!("tftpc {} len={len} blk={blk} ws={ws} path={style} {}{}{}{}", if upload { "upload" } else { "download" }, if ipv6 { "ipv6" } else { "ipv4" }, if dupn > 0 { format!(" dup={dupn}") } else { String::new() }, if case["no_rd"].as_bool().unwrap_or(false) { " (no -rd: into the working directory)" } else { "" }, if relparent { " (tftpd started with relative directories)" } else { "" });
        c.executions += 1;
        c.states += 1;
        c.transitions += (len as u64 / blk.max(1)) + 2;
        c.nontrivial += 1;
        let mut args: Vec<String>;
        let (src, dst);
        if upload {
            let rel = match style {
                "nested" => "sub/up.bin",
                "windows" => "sub\\up.bin",
                _ => "up.bin",
            };
            let real_rel = rel.replace('\\', "/");
            std::fs::write(format!("{cdir}/{real_rel}"), &data).unwrap();
            args = vec![rel.to_string(), "-u".into()];
            src = format!("{cdir}/{real_rel}");
            dst = if rd_first { format!("{}/up/up.bin", p.dir) } else { format!("{sdir}/up.bin") }; // stored under its basename in the server's receive directory
        } else {
            let rel = match style {
                "nested" => "sub/dl.bin",
                "windows" => "sub\\dl.bin",
                _ => "dl.bin",
            };
            let real_rel = rel.replace('\\', "/");
            std::fs::write(format!("{sdir}/{real_rel}"), &data).unwrap();
            if case["no_rd"].as_bool().unwrap_or(false) {
                // no -rd: the receive directory is the client's working directory
                args = vec![rel.to_string(), "-d".into()];
                dst = format!("{cdir}/dl.bin");
            } else {
                args = vec![rel.to_string(), "-d".into(), "-rd".into(), format!("{cdir}/rd")];
                dst = format!("{cdir}/rd/dl.bin"); // <receive-directory>/<basename of the requested path>
            }
            src = format!("{sdir}/{real_rel}");
        }
        args.extend(["-i".into(), ip.into(), "-p".into(), port.clone(), "-b".into(), blk.to_string(), "-w".into(), ws.to_string()]);
        match run_tftpc(&cdir, &args) {
            Err(e) => viol.push(("client-hangs".into(), format!("{desc}: {e}"))),
            Ok((_code, _stderr)) => {
                // the server side finishes asynchronously: wait briefly for the stored file to be complete
                let t0 = Instant::now();
                let mut b = std::fs::read(&dst).ok();
                while b.as_deref() != Some(&data[..]) && t0.elapsed() < Duration::from_millis(500) {
                    std::thread::sleep(Duration::from_millis(2));
                    b = std::fs::read(&dst).ok();
                }
                if b.as_deref() != Some(&data[..]) {
                    viol.push(("not-identical".into(), format!("{desc}: {dst} has {:?} bytes, source has {}", b.map(|x| x.len()), data.len())));
                }
                if std::fs::read(&src).ok().as_deref() != Some(&data[..]) {
                    viol.push(("source-changed".into(), format!("{desc}: source changed")));
                }
            }
        }
        let _ = std::fs::remove_file(&dst);
        if rd_first && upload && std::fs::read(format!("{sdir}/up.bin")).ok().as_deref() != Some(&b"offered for download"[..]) {
            viol.push(("upload-touched-send-directory".into(), format!("{desc}: the file of the same name in the send directory changed")));
        }
        if c.samples.is_empty() {
            c.samples.push(json!({"binaries": "tftpc <-> tftpd", "case": desc}));
        }
    }
    if let Some(kind) = refusal {
        c.executions += 1;
        c.states += 1;
        c.transitions += 1;
        c.nontrivial += 1;
        let before = snapshot(&cdir);
        let mut args: Vec<String> = match kind {
            "missing" => vec!["nope.bin".into(), "-d".into(), "-rd".into(), format!("{cdir}/rd")],
            _ => {
                std::fs::write(format!("{cdir}/dup.bin"), body(300)).unwrap();
                if kind == "exists" {
                    std::fs::write(format!("{rdir}/dup.bin"), b"already here").unwrap();
                }
                vec!["dup.bin".into(), "-u".into()]
            }
        };
        let before = if kind == "missing" { before } else { snapshot(&cdir) };
        args.extend(["-i".into(), ip.into(), "-p".into(), port.clone()]);
        match run_tftpc(&cdir, &args) {
            Err(e) => viol.push(("client-hangs".into(), format!("refusal {kind}: {e}"))),
            Ok((_code, stderr)) => {
                if stderr.trim().is_empty() {
                    viol.push(("refusal-not-reported".into(), format!("refusal {kind}: tftpc printed nothing on stderr")));
                }
                let d = tree_diff(&before, &snapshot(&cdir));
                if !d.is_empty() {
                    viol.push(("refusal-created-file".into(), format!("refusal {kind}: client-side tree changed: {:?}", d)));
                }
                if kind == "exists" && std::fs::read(format!("{rdir}/dup.bin")).ok().as_deref() != Some(&b"already here"[..]) {
                    viol.push(("refusal-server-effect".into(), "refusal exists: the existing file on the server changed".into()));
                }
            }
        }
        c.samples.push(json!({"binaries": "tftpc <-> tftpd", "refusal": kind, "ipv6": ipv6}));
    }
    for (clause, what) in viol {
        c.violations.push(Violation { property: prop.clone(), clause, facts: facts(&[("mode", json!("binaries"))]), what, replay: json!({"engine": "c14_bin", "spec": spec}), weight: 20 });
    }
    c.trace_hashes.insert(fnv64(spec.to_string().as_bytes()));
    drop(p);
    c.to_json()
}

// ---------------------------------------------------------------- two real Workers joined by the simulated network

#[derive(Clone, Debug)]
pub struct PairCfg {
    pub blk: usize,
    pub ws: u16,
    pub len: usize,
}

pub struct PairResult {
    pub log: Vec<ChoiceRec>,
    pub viol: Vec<(String, String)>,
    pub faults: Vec<String>,
    pub steps: u64,
    pub hash: u64,
    pub machinery: Option<String>,
}

pub fn run_pair(pc: &PairCfg, prefix: &[u16]) -> PairResult {
    let dir = e1_dir();
    let src = format!("{dir}/pair_src_{}", pc.len);
    let dst = format!("{dir}/pair_dst");
    let data = content(pc.len, 5);
    if std::fs::metadata(&src).map(|m| m.len() as usize != pc.len).unwrap_or(true) {
        std::fs::write(&src, &data).unwrap();
    }
    let _ = std::fs::remove_file(&dst);
    clock_reset();
    let t = Duration::from_secs(5);
    let (ss, sd) = sim_pair(t, Snapshot::None, &src, 1);
    let (rs, rd) = sim_pair(t, Snapshot::Full, &dst, 2);
    let sender = Worker::new(Box::new(ss), std::path::PathBuf::from(&src), true, pc.blk, t, pc.ws, 1).send(false).expect("spawn");
    let receiver = Worker::new(Box::new(rs), std::path::PathBuf::from(&dst), true, pc.blk, t, pc.ws, 1).receive().expect("spawn");
    let mut ch = Chooser::new(prefix);
    let mut faults = vec![];
    let mut to_r: std::collections::VecDeque<Vec<u8>> = Default::default();
    let mut to_s: std::collections::VecDeque<Vec<u8>> = Default::default();
    let mut delayed_r: Vec<Vec<u8>> = vec![];
    let mut delayed_s: Vec<Vec<u8>> = vec![];
    let (mut seen_s, mut seen_r) = (0usize, 0usize);
    let (mut closed_s, mut closed_r) = (false, false);
    let mut machinery = None;
    let mut steps = 0u64;
    let mut last_fired: Option<bool> = None;
    let mut emission = 0usize;
    let cap = 80 * (pc.len / pc.blk + 12) as u64;
    let mut final_ack_lost = false;
    let kfinal = (pc.len / pc.blk) as u64 + 1;
    loop {
        steps += 1;
        if steps > cap {
            machinery = Some("pair execution did not end".into());
            break;
        }
        let mut progressed = false;
        for (is_sender, drv, seen, closed) in [(true, &sd, &mut seen_s, &mut closed_s), (false, &rd, &mut seen_r, &mut closed_r)] {
            if !*closed {
                match drv.wait() {
                    WState::Closed => *closed = true,
                    WState::Stuck => machinery = Some("worker stuck".into()),
                    WState::Recv(_) => {}
                }
            }
            let evs = drv.events_from(*seen);
            *seen += evs.len();
            for e in evs {
                if let Event::Send { bytes, .. } = e {
                    progressed = true;
                    let idx = emission;
                    emission += 1;
                    let who = if is_sender { "sender" } else { "receiver" };
                    let f = ch.choose(&[0, 1, 1, 1], &|i| format!("{who}#{idx} {} {}", crate::refcodec::describe(&bytes), ["ok", "Drop", "Dup", "Delay"][i]));
                    if f != 0 {
                        faults.push(format!("{who}#{idx} {} {}", crate::refcodec::describe(&bytes), ["ok", "Drop", "Dup", "Delay"][f]));
                        if !is_sender && f != 2 {
                            if let Some(crate::refcodec::RPacket::Ack(k)) = decode(&bytes) {
                                if abs_block(k, kfinal.saturating_sub(1)) == kfinal {
                                    final_ack_lost = true;
                                }
                            }
                        }
                    }
                    let (q, d) = if is_sender { (&mut to_r, &mut delayed_r) } else { (&mut to_s, &mut delayed_s) };
                    match f {
                        0 => q.push_back(bytes),
                        1 => {}
                        2 => {
                            q.push_back(bytes.clone());
                            q.push_back(bytes);
                        }
                        _ => d.push(bytes),
                    }
                }
            }
        }
        if progressed {
            last_fired = None;
        }
        if closed_s && closed_r {
            break;
        }
        // deliveries first (receiver side first), then timers
        if !closed_r {
            if let Some(b) = to_r.pop_front() {
                rd.answer(Answer::Deliver { bytes: b, delay_ns: 0 });
                continue;
            }
        } else {
            to_r.clear();
        }
        if !closed_s {
            if let Some(b) = to_s.pop_front() {
                sd.answer(Answer::Deliver { bytes: b, delay_ns: 0 });
                continue;
            }
        } else {
            to_s.clear();
        }
        // quiet: a timer fires
        let fire_sender = if closed_s {
            false
        } else if closed_r {
            true
        } else {
            match last_fired {
                Some(true) => false,
                Some(false) => true,
                None => ch.choose(&[0, 0], &|i| if i == 0 { "timer: sender first".into() } else { "timer: receiver first".into() }) == 0,
            }
        };
        last_fired = Some(fire_sender);
        if fire_sender {
            sd.answer(Answer::Timeout);
            to_s.extend(delayed_s.drain(..));
        } else {
            rd.answer(Answer::Timeout);
            to_r.extend(delayed_r.drain(..));
        }
    }
    let (ps, pr) = if machinery.is_none() { (sender.join().is_err(), receiver.join().is_err()) } else { (false, false) };
    let mut viol = vec![];
    let evs_s = sd.take_events();
    let evs_r = rd.take_events();
    let stored = std::fs::read(&dst).ok();
    // judge each worker's own trace with the Mode A monitors, then the composition
    let xs = XCfg { role: Role::Sender, blk: pc.blk, ws: pc.ws, len: pc.len, handshake: false, timeout_s: 5, repeat: 1, clean: true, alpha: 3, silence_after: None, error_at: None, ack_every_copy: false, snapshot_tail: false, noise: None, noise_resume: false, send_fail_at: None, error_latin1: false, error_code: 0 };
    let mut xr = xs.clone();
    xr.role = Role::Receiver;
    let ts = Trace { cfg: xs, events: evs_s, log: vec![], panicked: ps, stuck: false, horizon_hit: false, replay_error: None, now_calls: 1, final_file: None, content: std::sync::Arc::new(data.clone()) };
    let (_, sum_s) = monitors::check_all_s(&ts);
    let tr = Trace { cfg: xr, events: evs_r, log: vec![], panicked: pr, stuck: false, horizon_hit: false, replay_error: None, now_calls: 1, final_file: stored.clone(), content: std::sync::Arc::new(data.clone()) };
    let (mr, sum_r) = monitors::check_all_s(&tr);
    for m in mr.iter().filter(|m| m.property_hint.iter().any(|p| *p == "C02" || *p == "C13")) {
        viol.push((format!("pair-{}", m.clause), m.what.clone()));
    }
    if machinery.is_none() {
        if faults.len() < 6 {
            if !(sum_r.finished && stored.as_deref() == Some(&data[..])) {
                viol.push(("pair-receiver-incomplete".into(), format!("two real Workers, faults {:?}: the receiving Worker did not end with a byte-identical file (finished={}, file {:?} bytes of {})", faults, sum_r.finished, stored.as_ref().map(|s| s.len()), data.len())));
            }
            if !sum_s.finished && !final_ack_lost {
                viol.push(("pair-sender-incomplete".into(), format!("two real Workers, faults {:?}: the sending Worker gave up although the final ACK was not lost", faults)));
            }
        }
        if sum_r.finished && stored.as_deref() != Some(&data[..]) {
            viol.push(("pair-corrupt".into(), "the receiving Worker acknowledged the final block but its file differs from the sender's".into()));
        }
    }
    let mut h = Hasher64::new();
    h.feed_u64(trace_hash(&ts.events));
    h.feed_u64(trace_hash(&tr.events));
    PairResult { log: ch.log.clone(), viol, faults, steps, hash: h.0, machinery }
}

pub fn pair_cell(spec: &Value) -> Value {
    let pc = PairCfg { blk: spec["blk"].as_u64().unwrap() as usize, ws: spec["ws"].as_u64().unwrap() as u16, len: spec["len"].as_u64().unwrap() as usize };
    let bound = spec["bound"].as_u64().unwrap_or(1);
    let prop = spec["property"].as_str().unwrap_or("C14").to_string();
    let mut c = Counters::default();
    let mut hashes = std::collections::BTreeSet::new();
    let mut sample = None;
    let stats = explore(bound, 2_000_000, &mut |prefix: &[u16]| {
        let r = run_pair(&pc, prefix);
        if hashes.insert(r.hash) {
            c.nontrivial += 1;
        }
        if let Some(m) = &r.machinery {
            c.machinery_errors.push(format!("{m} (pair blk={} ws={} len={})", pc.blk, pc.ws, pc.len));
        }
        let choices: Vec<u16> = r.log.iter().map(|x| x.chosen).collect();
        for (clause, what) in &r.viol {
            c.violations.push(Violation { property: prop.clone(), clause: clause.clone(), facts: facts(&[("mode", json!("two-workers"))]), what: format!("[pair blk={} ws={} len={}] {}", pc.blk, pc.ws, pc.len, what), replay: json!({"engine": "c14_pair", "blk": pc.blk, "ws": pc.ws, "len": pc.len, "choices": choices, "faults": r.faults}), weight: r.faults.len() as u64 * 1000 + choices.len() as u64 });
        }
        if c.violations.len() > 200 {
            c.trim_violations(2);
        }
        if sample.is_none() && !r.faults.is_empty() {
            sample = Some(json!({"pair": format!("blk={} ws={} len={}", pc.blk, pc.ws, pc.len), "faults": r.faults, "choices": choices}));
        }
        (r.log, r.steps)
    });
    c.executions = stats.executions;
    c.states = stats.executions;
    c.transitions = stats.transitions;
    c.add_extra("distinct_traces", hashes.len() as u64);
    for h in hashes.iter().take(16) {
        c.trace_hashes.insert(*h);
    }
    c.samples.push(sample.unwrap_or(json!({"pair": format!("blk={} ws={} len={}", pc.blk, pc.ws, pc.len)})));
    c.trim_violations(2);
    c.to_json()
}

// ---------------------------------------------------------------- check

pub fn check(tier: Tier) -> Outcome {
    let mut out = Outcome::new("C14", "exploration");
    // (d) the bundled client behind a relay that loses one datagram of the data phase (wall clock: runs alongside)
    let rc = relay_cells("C14");
    let nrc = rc.len();
    let hrc = std::thread::spawn(move || run_cells("c14_relay", rc, &crate::pool_opts(Tier::Quick)));
    // (a) in-process Client/Server pair over the boundary grid
    let mut cells = vec![];
    for single in [false, true] {
        let mut s = SrvCfg::basic();
        s.single = single;
        s.overwrite = true;
        let blks: Vec<usize> = if tier == Tier::Quick { vec![8, 512, 65464] } else { vec![8, 512, 1428, 65464] };
        for blk in blks {
            let mut wss: Vec<usize> = if tier == Tier::Quick { vec![1, 2, 65535] } else { vec![1, 2, 7, 65535] };
            if blk == 8 {
                // byte boundaries of the 16-bit value (a window narrowed to 8 bits would become 0 or wrap)
                wss.extend([255, 256, 257, 512, 65280]);
            }
            for ws in wss {
                let w = ws.min(9);
                let mut lens = vec![0, 1, blk - 1, blk, blk + 1, w * blk, w * blk + 1];
                if blk >= 512 {
                    lens.push(70000);
                }
                if blk == 8 && tier == Tier::Thorough && ws == 7 {
                    lens.push(65536 * 8 + 3);
                }
                lens.sort();
                lens.dedup();
                // one window must fit the default socket receive buffer of the receiving side (~200 KB), otherwise the
                // kernel drops part of the burst and the run hangs on multi-second retransmission timers
                lens.retain(|l| (*l).min(ws * blk) <= 140_000);
                let touts: Vec<u64> = if tier == Tier::Quick { vec![5] } else { vec![1, 5, 255] };
                cells.push(json!({"srv": s.to_json(), "blk": blk, "wss": [ws], "timeouts": touts, "lens": lens}));
            }
        }
        for kind in ["missing", "exists"] {
            let mut s2 = s.clone();
            s2.overwrite = false;
            cells.push(json!({"srv": s2.to_json(), "refusal": kind}));
        }
        let mut s3 = s.clone();
        s3.read_only = true;
        cells.push(json!({"srv": s3.to_json(), "refusal": "readonly"}));
    }
    let n = cells.len();
    let res = run_cells("c14_inproc", cells, &crate::pool_opts(tier));
    out.absorb(res, n);
    // (b) the real binaries
    let mut cells = vec![];
    for ipv6 in [false, true] {
        for single in [false, true] {
            let mut cases = vec![];
            for (style, upload) in [("plain", false), ("plain", true), ("nested", false), ("nested", true), ("windows", false), ("windows", true)] {
                cases.push(json!({"len": 1500, "blk": 512, "ws": 1, "upload": upload, "path": style}));
            }
            cases.push(json!({"len": 70000, "blk": 1428, "ws": 7, "upload": false, "path": "plain"}));
            cases.push(json!({"len": 70000, "blk": 65464, "ws": 2, "upload": true, "path": "plain"}));
            cases.push(json!({"len": 0, "blk": 8, "ws": 65535, "upload": false, "path": "plain"}));
            cases.push(json!({"len": 4096, "blk": 8, "ws": 65535, "upload": true, "path": "plain"}));
            if tier == Tier::Thorough {
                cases.push(json!({"len": 65536 * 8 + 3, "blk": 8, "ws": 16, "upload": false, "path": "plain"}));
                cases.push(json!({"len": 65536 * 8 + 3, "blk": 8, "ws": 16, "upload": true, "path": "plain"}));
            }
            cells.push(json!({"ipv6": ipv6, "single": single, "cases": cases}));
            if !ipv6 {
                // more than 65535 blocks through the real binaries; a receive directory given before -d
                cells.push(json!({"ipv6": false, "single": single, "cases": [{"len": 65536 * 8 + 3, "blk": 8, "ws": 16, "upload": false, "path": "plain"}, {"len": 65536 * 8 + 3, "blk": 8, "ws": 16, "upload": true, "path": "plain"}]}));
                cells.push(json!({"ipv6": false, "single": single, "rd_first": true, "cases": [{"len": 1500, "blk": 512, "ws": 1, "upload": true, "path": "plain"}, {"len": 1500, "blk": 512, "ws": 1, "upload": false, "path": "plain"}]}));
            }
            for kind in ["missing", "exists", "readonly"] {
                cells.push(json!({"ipv6": ipv6, "single": single, "cases": [], "refusal": kind}));
            }
            if !ipv6 {
                // downloads without -rd (nested and Windows-style paths land in the working directory under their basename)
                cells.push(json!({"ipv6": false, "single": single, "cases": [{"len": 1500, "blk": 512, "ws": 1, "upload": false, "path": "nested", "no_rd": true}, {"len": 1500, "blk": 512, "ws": 1, "upload": false, "path": "windows", "no_rd": true}, {"len": 1500, "blk": 512, "ws": 1, "upload": false, "path": "plain", "no_rd": true}]}));
                // tftpd started with RELATIVE directory names (with and without a separate receive directory)
                for rd in [false, true] {
                    cells.push(json!({"ipv6": false, "single": single, "relparent": true, "rd_first": rd, "cases": [{"len": 1500, "blk": 512, "ws": 1, "upload": false, "path": "plain"}, {"len": 1500, "blk": 512, "ws": 1, "upload": true, "path": "plain"}, {"len": 1500, "blk": 512, "ws": 1, "upload": false, "path": "nested"}]}));
                }
                // distinct directories: the name exists in the RECEIVE directory only (no --overwrite): refused
                cells.push(json!({"ipv6": false, "single": single, "rd_first": true, "cases": [], "refusal": "exists"}));
            }
        }
    }
    let n = cells.len();
    let res = run_cells("c14_bin", cells, &crate::pool_opts(tier));
    out.absorb(res, n);
    // (c) two real Workers joined by the simulated network, every placement of one fault
    let mut cells = vec![];
    for ws in [1u16, 2, 3] {
        let w = ws as usize;
        for len in [5usize, w * 8, w * 8 + 1, 2 * w * 8 + 3] {
            cells.push(json!({"blk": 8, "ws": ws, "len": len, "bound": if tier == Tier::Quick { 1 } else { 2 }}));
        }
    }
    let n = cells.len();
    let res = run_cells("c14_pair", cells, &crate::pool_opts(tier));
    out.absorb(res, n);
    if let Ok(res) = hrc.join() {
        out.absorb(res, nrc);
    }
    out.rule = "(a) the bundled Client (ClientConfig::new + Client::run, in-process) against the real Server on loopback over the boundary grid len in {0,1,blk-1,blk,blk+1,w*blk,w*blk+1,70000,(65536*8+3)} x blksize {8,512,(1428),65464} x windowsize {1,2,(7),255,256,257,512,65280,65535} x timeout {(1),5,(255)} x {single,multi port} x {download,upload}, plus refusals (missing file, existing file without overwrite, read-only server): files byte-identical on both sides, stored under the basename, no client-side file and an Err on refusal. (b) the real tftpc and tftpd binaries on a covering sub-grid x {IPv4, ::1} x {plain, nested, Windows-style path} x refusal kinds. (c) two real Workers (one sending, one receiving) joined by the simulated network: every placement of up to 1 (thorough 2) faults (drop, duplicate, delay-past-timeout) and both timer orders; both must end with identical files. (d) the bundled client with -t 1 behind a UDP relay that loses one of the first three data-phase datagrams, both directions, both port modes: the transfer still completes byte-identically. The grid is a boundary-value selection of a space that is not small: level = exploration. non-trivial = every run (each transfers a file or exercises a refusal).".into();
    out.assumptions = vec!["tftpc is run under a 20 s kill deadline (it has no timeout on its first receive)".into(), "uploads by absolute path only work when the client's working directory is / (the client strips leading separators); the in-process runs set it so".into()];
    out
}

pub fn replay(v: &Value) -> String {
    if v["engine"] == "c14_pair" {
        let pc = PairCfg { blk: v["blk"].as_u64().unwrap() as usize, ws: v["ws"].as_u64().unwrap() as u16, len: v["len"].as_u64().unwrap() as usize };
        let choices: Vec<u16> = v["choices"].as_array().map(|a| a.iter().map(|x| x.as_u64().unwrap_or(0) as u16).collect()).unwrap_or_default();
        let r = run_pair(&pc, &choices);
        let r2 = run_pair(&pc, &choices);
        return format!("faults {:?}\nviolations {:?}\nsecond replay identical: {}", r.faults, r.viol, r.hash == r2.hash);
    }
    if v["engine"] == "c14_bin" {
        let r = binary_cell(&v["spec"]);
        return format!("{}", r["violations"]);
    }
    let r = inproc_cell(&json!({"srv": v["srv"], "blk": v["blk"], "wss": [v["ws"]], "timeouts": [v["timeout"]], "lens": [v["len"]], "refusal": v["refusal"]}));
    format!("{}", r["violations"])
}
