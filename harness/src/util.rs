//! Shared infrastructure: process pool, stdio silencing, hashing, reports, known findings.

use serde_json::{json, Map, Value};
use std::collections::BTreeSet;
use std::io::{BufRead, BufReader, Write};
use std::os::unix::io::FromRawFd;
use std::process::{Child, Command, Stdio};
use std::sync::atomic::{AtomicUsize, Ordering};
use std::sync::{Arc, Mutex};
use std::time::{Duration, Instant};

/// root of the verification tree (set by ./check; /verif by default)
pub fn verif_dir() -> String {
    std::env::var("VERIF_DIR").unwrap_or_else(|_| "/verif".to_string())
}

// ---------------------------------------------------------------- hashing

pub fn fnv64(data: &[u8]) -> u64 {
    let mut h: u64 = 0xcbf29ce484222325;
    for b in data {
        h ^= *b as u64;
        h = h.wrapping_mul(0x100000001b3);
    }
    h
}

pub struct Hasher64(pub u64);
impl Hasher64 {
    pub fn new() -> Self {
        Hasher64(0xcbf29ce484222325)
    }
    pub fn feed(&mut self, data: &[u8]) {
        for b in data {
            self.0 ^= *b as u64;
            self.0 = self.0.wrapping_mul(0x100000001b3);
        }
    }
    pub fn feed_u64(&mut self, v: u64) {
        self.feed(&v.to_le_bytes());
    }
}

/// Position-coded content: byte i is a fixed mixing function of i. Any misplaced, repeated or
/// missing slice is detectable, including slices exactly 65536 blocks apart.
pub fn content_byte(i: u64, salt: u64) -> u8 {
    let mut x = i.wrapping_add(salt.wrapping_mul(0x9E3779B97F4A7C15)).wrapping_add(0x632BE59BD9B4E019);
    x ^= x >> 30;
    x = x.wrapping_mul(0xBF58476D1CE4E5B9);
    x ^= x >> 27;
    x = x.wrapping_mul(0x94D049BB133111EB);
    x ^= x >> 31;
    (x & 0xff) as u8
}

pub fn content(len: usize, salt: u64) -> Vec<u8> {
    (0..len as u64).map(|i| content_byte(i, salt)).collect()
}

pub fn hex(b: &[u8]) -> String {
    let mut s = String::with_capacity(b.len() * 2);
    for x in b {
        s.push_str(&format!("{:02x}", x));
    }
    s
}

pub fn unhex(s: &str) -> Vec<u8> {
    (0..s.len() / 2).map(|i| u8::from_str_radix(&s[2 * i..2 * i + 2], 16).unwrap()).collect()
}

// ---------------------------------------------------------------- stdio

static SAVED_OUT: AtomicUsize = AtomicUsize::new(1);

/// Redirect fds 1 and 2 to /dev/null (the subject prints a line per transfer); keep a duplicate of
/// the original stdout for the harness's own output.
pub fn silence_stdio() {
    unsafe {
        // close-on-exec: subprocesses started by this shard (tftpd, tftpc) must not inherit the result pipe, otherwise a
        // killed shard would leave the pipe open in its orphans and the parent would wait for EOF forever
        let saved = libc::fcntl(1, libc::F_DUPFD_CLOEXEC, 3);
        let devnull = libc::open(b"/dev/null\0".as_ptr() as *const libc::c_char, libc::O_WRONLY);
        if saved >= 0 && devnull >= 0 {
            libc::dup2(devnull, 1);
            if std::env::var("VERIF_KEEP_STDERR").is_err() {
                libc::dup2(devnull, 2);
            }
            libc::close(devnull);
            SAVED_OUT.store(saved as usize, Ordering::SeqCst);
        }
    }
}

pub fn out_write(s: &str) {
    let fd = SAVED_OUT.load(Ordering::SeqCst) as i32;
    let bytes = s.as_bytes();
    let mut off = 0;
    while off < bytes.len() {
        let n = unsafe { libc::write(fd, bytes[off..].as_ptr() as *const libc::c_void, bytes.len() - off) };
        if n <= 0 {
            break;
        }
        off += n as usize;
    }
}

pub fn outln(s: &str) {
    let mut t = s.to_string();
    t.push('\n');
    out_write(&t);
}

/// Make a child process die with this process (a shard killed by the watchdog must not leave servers behind).
pub fn die_with_parent(cmd: &mut std::process::Command) {
    use std::os::unix::process::CommandExt;
    unsafe {
        cmd.pre_exec(|| {
            libc::prctl(libc::PR_SET_PDEATHSIG, libc::SIGKILL);
            Ok(())
        });
    }
}

// ---------------------------------------------------------------- scratch dirs

pub fn scratch_root() -> String {
    let base = if std::path::Path::new("/dev/shm").is_dir() { "/dev/shm" } else { "/var/tmp" };
    let p = format!("{}/verif-{}", base, std::process::id());
    let _ = std::fs::create_dir_all(&p);
    p
}

pub fn rm_rf(p: &str) {
    let _ = std::fs::remove_dir_all(p);
}

// ---------------------------------------------------------------- violations / reports

#[derive(Clone, Debug)]
pub struct Violation {
    pub property: String,
    /// monitor clause, e.g. "S2-beyond-final"
    pub clause: String,
    /// key facts pinning the circumstance (used for known-finding matching and grouping)
    pub facts: Map<String, Value>,
    /// human-readable one-liner
    pub what: String,
    /// everything needed to replay (engine, config, choice list, ...)
    pub replay: Value,
    /// size measure for "shortest first" (deviations, then length)
    pub weight: u64,
}

impl Violation {
    pub fn to_json(&self) -> Value {
        json!({"property": self.property, "clause": self.clause, "facts": self.facts, "what": self.what,
               "replay": self.replay, "weight": self.weight})
    }
    pub fn from_json(v: &Value) -> Violation {
        Violation {
            property: v["property"].as_str().unwrap_or("").to_string(),
            clause: v["clause"].as_str().unwrap_or("").to_string(),
            facts: v["facts"].as_object().cloned().unwrap_or_default(),
            what: v["what"].as_str().unwrap_or("").to_string(),
            replay: v["replay"].clone(),
            weight: v["weight"].as_u64().unwrap_or(0),
        }
    }
    pub fn group_key(&self) -> String {
        format!("{}|{}|{}", self.property, self.clause, Value::Object(self.facts.clone()))
    }
}

pub fn facts(pairs: &[(&str, Value)]) -> Map<String, Value> {
    let mut m = Map::new();
    for (k, v) in pairs {
        m.insert(k.to_string(), v.clone());
    }
    m
}

/// Aggregated counters of one exploration (summed over cells).
#[derive(Clone, Debug, Default)]
pub struct Counters {
    pub executions: u64,
    pub states: u64,
    pub transitions: u64,
    pub trace_hashes: BTreeSet<u64>,
    pub nontrivial: u64,
    pub determinism_reruns: u64,
    pub machinery_errors: Vec<String>,
    pub capped: Vec<String>,
    pub samples: Vec<Value>,
    pub violations: Vec<Violation>,
    pub extra: Map<String, Value>,
}

impl Counters {
    pub fn to_json(&self) -> Value {
        json!({
            "executions": self.executions, "states": self.states, "transitions": self.transitions,
            "trace_hashes": self.trace_hashes.iter().map(|h| Value::from(*h)).collect::<Vec<_>>(),
            "nontrivial": self.nontrivial, "determinism_reruns": self.determinism_reruns,
            "machinery_errors": self.machinery_errors, "capped": self.capped, "samples": self.samples,
            "violations": self.violations.iter().map(|v| v.to_json()).collect::<Vec<_>>(),
            "extra": self.extra,
        })
    }
    pub fn from_json(v: &Value) -> Counters {
        let mut c = Counters::default();
        c.executions = v["executions"].as_u64().unwrap_or(0);
        c.states = v["states"].as_u64().unwrap_or(0);
        c.transitions = v["transitions"].as_u64().unwrap_or(0);
        if let Some(a) = v["trace_hashes"].as_array() {
            for h in a {
                if let Some(h) = h.as_u64() {
                    c.trace_hashes.insert(h);
                }
            }
        }
        c.nontrivial = v["nontrivial"].as_u64().unwrap_or(0);
        c.determinism_reruns = v["determinism_reruns"].as_u64().unwrap_or(0);
        if let Some(a) = v["machinery_errors"].as_array() {
            c.machinery_errors = a.iter().map(|x| x.as_str().unwrap_or("").to_string()).collect();
        }
        if let Some(a) = v["capped"].as_array() {
            c.capped = a.iter().map(|x| x.as_str().unwrap_or("").to_string()).collect();
        }
        if let Some(a) = v["samples"].as_array() {
            c.samples = a.clone();
        }
        if let Some(a) = v["violations"].as_array() {
            c.violations = a.iter().map(Violation::from_json).collect();
        }
        if let Some(o) = v["extra"].as_object() {
            c.extra = o.clone();
        }
        c
    }
    pub fn merge(&mut self, o: Counters) {
        self.executions += o.executions;
        self.states += o.states;
        self.transitions += o.transitions;
        // keep the set bounded: distinct-trace counting is exact per cell, summed across cells via extra
        for h in o.trace_hashes {
            if self.trace_hashes.len() < 2_000_000 {
                self.trace_hashes.insert(h);
            }
        }
        self.nontrivial += o.nontrivial;
        self.determinism_reruns += o.determinism_reruns;
        self.machinery_errors.extend(o.machinery_errors);
        self.capped.extend(o.capped);
        for s in o.samples {
            if self.samples.len() < 12 {
                self.samples.push(s);
            }
        }
        self.violations.extend(o.violations);
        for (k, v) in o.extra {
            // numeric extras are summed, others overwritten
            match (self.extra.get(&k).and_then(|x| x.as_u64()), v.as_u64()) {
                (Some(a), Some(b)) => {
                    self.extra.insert(k, Value::from(a + b));
                }
                _ => {
                    self.extra.insert(k, v);
                }
            }
        }
    }
    pub fn add_extra(&mut self, k: &str, n: u64) {
        let cur = self.extra.get(k).and_then(|x| x.as_u64()).unwrap_or(0);
        self.extra.insert(k.to_string(), Value::from(cur + n));
    }
    /// keep at most `cap` violations per group key (the lightest ones)
    pub fn trim_violations(&mut self, cap: usize) {
        use std::collections::BTreeMap;
        let mut groups: BTreeMap<String, Vec<Violation>> = BTreeMap::new();
        for v in self.violations.drain(..) {
            groups.entry(v.group_key()).or_default().push(v);
        }
        for (_, mut g) in groups {
            g.sort_by_key(|v| v.weight);
            g.truncate(cap);
            self.violations.extend(g);
        }
    }
}

// ---------------------------------------------------------------- process pool

pub struct PoolOpts {
    pub nproc: usize,
    pub deadline: Instant,
    /// per-cell wall limit; a cell exceeding it is killed and reported as machinery error
    pub cell_limit: Duration,
    /// alternative worker binary (e.g. the overflow-checked build)
    pub exe: Option<String>,
}

fn spawn_worker(engine: &str, exe: &Option<String>) -> std::io::Result<Child> {
    let exe = match exe {
        Some(p) => std::path::PathBuf::from(p),
        None => std::env::current_exe()?,
    };
    Command::new(exe)
        .arg("worker")
        .arg(engine)
        .stdin(Stdio::piped())
        .stdout(Stdio::piped())
        .stderr(if std::env::var("VERIF_KEEP_STDERR").is_ok() { Stdio::inherit() } else { Stdio::null() })
        .spawn()
}

/// Runs every cell through `verif worker <engine>` child processes (dynamic work distribution).
/// Returns one result per cell; `None` = not run (deadline) ; a child crash yields a machinery error value.
/// Engines that talk over real sockets / real processes on the shared loopback interface: the one place where something the
/// harness does not own (another process's datagram landing on a re-used ephemeral port, a scheduling stall of the whole
/// box) can leak into an observation.
pub const REAL_SOCKET_ENGINES: &[&str] = &["c03", "c05", "c06", "c09", "c12", "e2_xfer", "e2_wrap", "c07_e2", "c13_e2", "c13_e2_abort", "c14_inproc", "c14_bin", "c14_relay", "c16_wire", "c16_cfg"];

/// Runs the cells; for real-socket engines every cell that reported a violation is run a second time (fresh worker
/// process) and only violations that occur in BOTH runs (same property, clause and facts) are reported — "the same
/// schedule must fail every time". What did not recur is counted and described under `unreproduced_anomalies` in the
/// evidence, never silently dropped. Simulated engines are deterministic by construction and have their own re-runs.
pub fn run_cells(engine: &str, cells: Vec<Value>, opts: &PoolOpts) -> Vec<Option<Value>> {
    if !REAL_SOCKET_ENGINES.contains(&engine) || std::env::var("VERIF_NO_RECHECK").is_ok() {
        return run_cells_once(engine, cells, opts);
    }
    let mut res = run_cells_once(engine, cells.clone(), opts);
    let has_viol = |r: &Option<Value>| r.as_ref().and_then(|v| v["violations"].as_array().map(|a| !a.is_empty())).unwrap_or(false);
    let idxs: Vec<usize> = res.iter().enumerate().filter(|(_, r)| has_viol(r)).map(|(i, _)| i).collect();
    if idxs.is_empty() {
        return res;
    }
    let sub: Vec<Value> = idxs.iter().map(|i| cells[*i].clone()).collect();
    let o2 = PoolOpts { nproc: opts.nproc, deadline: opts.deadline.max(Instant::now() + Duration::from_secs(150)), cell_limit: opts.cell_limit, exe: opts.exe.clone() };
    let res2 = run_cells_once(engine, sub, &o2);
    for (k, i) in idxs.iter().enumerate() {
        let Some(second) = res2[k].as_ref() else { continue };
        if second.get("machinery_error").is_some() {
            continue; // the second run says nothing: keep what the first one reported
        }
        let keys2: BTreeSet<String> = second["violations"].as_array().map(|a| a.iter().map(|v| Violation::from_json(v).group_key()).collect()).unwrap_or_default();
        let first = res[*i].as_mut().unwrap();
        let all: Vec<Value> = first["violations"].as_array().cloned().unwrap_or_default();
        let (kept, gone): (Vec<Value>, Vec<Value>) = all.into_iter().partition(|v| keys2.contains(&Violation::from_json(v).group_key()));
        if !gone.is_empty() {
            let n_gone = gone.len() as u64;
            first["violations"] = Value::Array(kept);
            let cur = first["extra"]["unreproduced_anomalies"].as_u64().unwrap_or(0);
            if !first["extra"].is_object() {
                first["extra"] = json!({});
            }
            first["extra"]["unreproduced_anomalies"] = json!(cur + n_gone);
            first["extra"]["unreproduced_example"] = json!(format!("{} [{}] {}", gone[0]["property"].as_str().unwrap_or(""), gone[0]["clause"].as_str().unwrap_or(""), gone[0]["what"].as_str().unwrap_or("").chars().take(400).collect::<String>()));
        }
    }
    res
}

fn run_cells_once(engine: &str, cells: Vec<Value>, opts: &PoolOpts) -> Vec<Option<Value>> {
    let n = cells.len();
    let results: Arc<Mutex<Vec<Option<Value>>>> = Arc::new(Mutex::new(vec![None; n]));
    let next = Arc::new(AtomicUsize::new(0));
    let cells = Arc::new(cells);
    let nproc = opts.nproc.max(1).min(n.max(1));
    let mut handles = vec![];
    for _ in 0..nproc {
        let results = results.clone();
        let next = next.clone();
        let cells = cells.clone();
        let engine = engine.to_string();
        let deadline = opts.deadline;
        let cell_limit = opts.cell_limit;
        let exe = opts.exe.clone();
        handles.push(std::thread::spawn(move || {
            let mut child: Option<(Child, BufReader<std::process::ChildStdout>)> = None;
            loop {
                if Instant::now() >= deadline {
                    break;
                }
                let idx = next.fetch_add(1, Ordering::SeqCst);
                if idx >= cells.len() {
                    break;
                }
                if child.is_none() {
                    match spawn_worker(&engine, &exe) {
                        Ok(mut c) => {
                            let out = BufReader::new(c.stdout.take().unwrap());
                            child = Some((c, out));
                        }
                        Err(e) => {
                            results.lock().unwrap()[idx] = Some(json!({"machinery_error": format!("spawn: {e}")}));
                            continue;
                        }
                    }
                }
                let (c, out) = child.as_mut().unwrap();
                let line = format!("{}\n", cells[idx]);
                let wrote = c.stdin.as_mut().unwrap().write_all(line.as_bytes()).and_then(|_| c.stdin.as_mut().unwrap().flush());
                let mut res: Option<Value> = None;
                if wrote.is_ok() {
                    // watchdog: kill the child if the cell exceeds its limit
                    let pid = c.id() as i32;
                    let done = Arc::new(std::sync::atomic::AtomicBool::new(false));
                    let done2 = done.clone();
                    let limit = cell_limit.min(deadline.saturating_duration_since(Instant::now()) + Duration::from_secs(20));
                    let wd = std::thread::spawn(move || {
                        let t0 = Instant::now();
                        while t0.elapsed() < limit {
                            if done2.load(Ordering::SeqCst) {
                                return false;
                            }
                            std::thread::sleep(Duration::from_millis(20));
                        }
                        if !done2.load(Ordering::SeqCst) {
                            unsafe { libc::kill(pid, libc::SIGKILL) };
                            return true;
                        }
                        false
                    });
                    let mut buf = String::new();
                    let r = out.read_line(&mut buf);
                    done.store(true, Ordering::SeqCst);
                    let killed = wd.join().unwrap_or(false);
                    match r {
                        Ok(k) if k > 0 => match serde_json::from_str::<Value>(&buf) {
                            Ok(v) => res = Some(v),
                            Err(e) => res = Some(json!({"machinery_error": format!("bad result line: {e}")})),
                        },
                        _ => {
                            let st = c.wait().ok();
                            res = Some(json!({"machinery_error": format!("worker process died on cell {} ({:?}, killed_by_watchdog={})", cells[idx], st, killed), "timeout": killed}));
                            child = None;
                        }
                    }
                } else {
                    let _ = c.kill();
                    let _ = c.wait();
                    child = None;
                    res = Some(json!({"machinery_error": "could not write to worker"}));
                }
                results.lock().unwrap()[idx] = res;
            }
            if let Some((mut c, _)) = child {
                drop(c.stdin.take());
                let _ = c.wait();
            }
        }));
    }
    for h in handles {
        let _ = h.join();
    }
    Arc::try_unwrap(results).map(|m| m.into_inner().unwrap()).unwrap_or_default()
}

/// Gives this process a network namespace of its own (own loopback interface, own port space): nothing another shard or
/// any other process on the machine sends can reach its sockets, and its datagrams reach nobody else. Children (tftpd,
/// tftpc) inherit it. Returns false (and changes nothing) where the kernel does not allow it; the checks then run on
/// the shared loopback as before, protected by reproduce-before-report.
pub fn isolate_network() -> bool {
    #[repr(C)]
    struct IfReq {
        name: [u8; 16],
        flags: i16,
        pad: [u8; 22],
    }
    if std::env::var("VERIF_NO_NETNS").is_ok() {
        return false;
    }
    unsafe {
        if libc::unshare(libc::CLONE_NEWNET) != 0 {
            return false;
        }
        let fd = libc::socket(libc::AF_INET, libc::SOCK_DGRAM, 0);
        let mut ok = fd >= 0;
        if ok {
            let mut r = IfReq { name: [0; 16], flags: 0, pad: [0; 22] };
            r.name[0] = b'l';
            r.name[1] = b'o';
            ok = libc::ioctl(fd, 0x8913, &mut r as *mut IfReq) == 0;
            if ok {
                r.flags |= (libc::IFF_UP | libc::IFF_RUNNING) as i16;
                ok = libc::ioctl(fd, 0x8914, &mut r as *mut IfReq) == 0;
            }
            libc::close(fd);
        }
        if !ok {
            // a namespace without a working loopback is useless: say so loudly (every socket operation would fail)
            eprintln!("verif: network namespace created but its loopback could not be brought up");
            std::process::exit(3);
        }
        // wait until ::1 is usable too (address assignment is asynchronous on some kernels)
        for _ in 0..200 {
            if std::net::UdpSocket::bind("[::1]:0").is_ok() {
                break;
            }
            std::thread::sleep(Duration::from_millis(5));
        }
        true
    }
}

/// Child side: read one JSON cell per line, write one JSON result per line.
pub fn worker_loop(f: &dyn Fn(&Value) -> Value) {
    silence_stdio();
    std::panic::set_hook(Box::new(|info| {
        // subject worker threads may panic (that is an observation, not a crash); keep quiet but remember the last message
        let msg = format!("{info}");
        if let Ok(mut g) = LAST_PANIC.lock() {
            *g = msg;
        }
    }));
    let stdin = std::io::stdin();
    let mut line = String::new();
    loop {
        line.clear();
        match stdin.lock().read_line(&mut line) {
            Ok(0) | Err(_) => break,
            Ok(_) => {}
        }
        let cell: Value = match serde_json::from_str(&line) {
            Ok(v) => v,
            Err(e) => {
                outln(&json!({"machinery_error": format!("bad cell: {e}")}).to_string());
                continue;
            }
        };
        let r = std::panic::catch_unwind(std::panic::AssertUnwindSafe(|| f(&cell)));
        let v = match r {
            Ok(v) => v,
            Err(_) => json!({"machinery_error": format!("harness panic in cell {}: {}", cell, last_panic())}),
        };
        outln(&v.to_string());
    }
    rm_rf(&scratch_root());
}

pub static LAST_PANIC: Mutex<String> = Mutex::new(String::new());
pub fn last_panic() -> String {
    LAST_PANIC.lock().map(|g| g.clone()).unwrap_or_default()
}

pub fn nproc() -> usize {
    std::env::var("VERIF_NPROC").ok().and_then(|s| s.parse().ok()).unwrap_or_else(|| {
        std::thread::available_parallelism().map(|n| n.get()).unwrap_or(4)
    })
}

/// For engines that hand us a `File` object for fd tricks.
#[allow(dead_code)]
pub fn file_from_fd(fd: i32) -> std::fs::File {
    unsafe { std::fs::File::from_raw_fd(fd) }
}

// ---------------------------------------------------------------- known findings

#[derive(Clone, Debug)]
pub struct KnownEntry {
    pub status: String, // "known" | "fixed"
    pub property: String,
    pub id: String,
    pub clause: String,
    pub where_: Map<String, Value>,
    pub what: String,
}

pub fn load_known() -> Vec<KnownEntry> {
    let p = format!("{}/known_findings.json", verif_dir());
    let Ok(s) = std::fs::read_to_string(&p) else { return vec![] };
    let Ok(v) = serde_json::from_str::<Value>(&s) else { return vec![] };
    let mut out = vec![];
    if let Some(a) = v["findings"].as_array() {
        for e in a {
            out.push(KnownEntry {
                status: e["status"].as_str().unwrap_or("known").to_string(),
                property: e["property"].as_str().unwrap_or("").to_string(),
                id: e["id"].as_str().unwrap_or("").to_string(),
                clause: e["clause"].as_str().unwrap_or("").to_string(),
                where_: e["where"].as_object().cloned().unwrap_or_default(),
                what: e["what"].as_str().unwrap_or("").to_string(),
            });
        }
    }
    out
}

pub fn known_match<'a>(known: &'a [KnownEntry], v: &Violation) -> Option<&'a KnownEntry> {
    known.iter().find(|k| {
        k.status == "known"
            && k.property == v.property
            && k.clause == v.clause
            && k.where_.iter().all(|(key, val)| v.facts.get(key) == Some(val))
    })
}

// ---------------------------------------------------------------- per-cell budget

/// A cell stops early (and says so in `capped`) once it has collected a dozen violations or used up its time slice;
/// a failing subject typically makes every further case wait for a backstop, and a cell killed by the watchdog
/// would lose the violations it had already found.
pub struct Budget {
    t0: Instant,
    secs: u64,
}

impl Budget {
    pub fn new() -> Budget {
        let secs = std::env::var("VERIF_CELL_SECS").ok().and_then(|s| s.parse().ok()).unwrap_or(45);
        Budget { t0: Instant::now(), secs }
    }
    pub fn over(&self, c: &mut Counters) -> bool {
        if c.violations.len() >= 12 {
            c.capped.push("cell stopped after 12 violations".into());
            return true;
        }
        if self.t0.elapsed() > Duration::from_secs(self.secs) {
            c.capped.push(format!("cell stopped after {} s", self.secs));
            return true;
        }
        false
    }
}
