//! E1 checks built on Mode B (real Worker + reference peer + faulty network): C04, C15, and the end-to-end parts of C01/C02.

use crate::e1_checks::base_cfg;
use crate::modea::{Role, XCfg};
use crate::modeb::{self, BCfg, BTrace};
use crate::monitors::{self, MViol, RETRY_BUDGET};
use crate::sim::*;
use crate::util::*;
use crate::{Outcome, Tier};
use serde_json::{json, Value};
use std::collections::BTreeSet;

pub fn bcfg(x: XCfg, reack_dup: bool, ack_on_timeout: bool, dally: bool) -> BCfg {
    BCfg { x, reack_dup, ack_on_timeout, dally, fault_window: None, lose_index: None, lose_times: 0, fast_peer_timer: false }
}

fn mv(clause: &str, props: &[&'static str], what: String, f: &[(&str, Value)]) -> MViol {
    MViol { clause: clause.into(), property_hint: props.to_vec(), what, facts: facts(f) }
}

/// Closed-system oracle: the worker-trace monitors plus completion / byte identity of both sides.
pub fn judge_b(c: &BCfg, bt: &BTrace) -> Vec<MViol> {
    let (mut v, sum) = monitors::check_all_s(&bt.tr);
    let content = &bt.tr.content[..];
    let role = c.x.role;
    if bt.step_cap_hit {
        v.push(mv("T5-no-termination", &["C07", "C04"], format!("closed system still running after {} steps", bt.steps), &[]));
        return v;
    }
    // S3: a peer that reports completion holds a byte-identical copy (never a corrupted one)
    if role == Role::Sender {
        if let Some(a) = &bt.peer_assembled {
            if bt.peer_done && a[..] != content[..] {
                v.push(mv("S3-corrupt-copy", &["C01", "C15", "C04"], format!("the client completed its download with {} bytes that differ from the {}-byte file", a.len(), content.len()), &[]));
            }
            if !bt.peer_done && !(a.len() <= content.len() && content[..a.len()] == a[..]) {
                v.push(mv("S3-corrupt-prefix", &["C01", "C15"], "the client's in-order reassembly is not a prefix of the file".into(), &[]));
            }
        }
    }
    // L1: liveness. Fewer than 6 network faults in the whole run cannot make 6 consecutive receive attempts fail
    // in a conformant system, so with < 6 faults completion is asserted unconditionally.
    let hypothesis = bt.faults.len() < RETRY_BUDGET && !sum.error_delivered && !sum.tolerated_abort_cause;
    // for transfers beyond 65535 blocks, failing to get through a fault at the wrap is also a C15 matter
    let lp: &[&'static str] = if c.x.kfinal() > 65535 { &["C04", "C15"] } else { &["C04"] };
    if hypothesis {
        match role {
            Role::Sender => {
                // receiving side = peer
                if !bt.peer_done && !bt.peer_failed {
                    v.push(mv("L1-download-incomplete", lp, format!("download did not complete at the client although at most {} consecutive receive attempts of the server failed", sum.max_consecutive_failures), &[("role", json!("sender"))]));
                }
                if bt.peer_failed && !bt.peer_done {
                    v.push(mv("L1-download-starved", lp, "the conformant client exhausted its 8 retries: the server stopped making progress".into(), &[("role", json!("sender"))]));
                }
                // (if the final ACK reached the sender it has finished by definition; the one permitted failure is a lost
                // final ACK with a client that does not dally)
                if !sum.finished && c.dally && bt.peer_done {
                    v.push(mv("L1-sender-gave-up", lp, "the server's sending side ended unsuccessfully although the client dallied and re-acknowledged the final block".into(), &[("role", json!("sender"))]));
                }
            }
            Role::Receiver => {
                // receiving side = worker: must end with the complete file
                let complete = sum.finished && bt.tr.final_file.as_deref() == Some(content);
                if !complete {
                    v.push(mv(
                        "L1-upload-incomplete",
                        lp,
                        format!(
                            "upload did not complete on the server (final block acknowledged: {}, file: {}) although at most {} consecutive receive attempts failed; client state: done={} gave_up={}",
                            sum.finished,
                            match &bt.tr.final_file {
                                None => "absent".to_string(),
                                Some(f) => format!("{} of {} bytes", f.len(), content.len()),
                            },
                            sum.max_consecutive_failures,
                            bt.peer_done,
                            bt.peer_failed
                        ),
                        &[("role", json!("receiver")), ("ws_gt1", json!(c.x.ws > 1))],
                    ));
                }
            }
        }
    }
    if role == Role::Receiver && sum.finished {
        if bt.tr.final_file.as_deref() != Some(content) {
            v.push(mv("U3-final-content-e2e", &["C02", "C15"], "the server acknowledged the final block but the stored file differs from what the conformant client sent".into(), &[]));
        }
    }
    v
}

pub fn modeb_cell(spec: &Value) -> Value {
    let c0 = BCfg::from_json(&spec["cfg"]);
    let bound = spec["bound"].as_u64().unwrap_or(0);
    let max_exec = spec["max_exec"].as_u64().unwrap_or(2_000_000);
    let props: Vec<String> = spec["props"].as_array().map(|a| a.iter().map(|x| x.as_str().unwrap_or("").to_string()).collect()).unwrap_or_default();
    let mut c = Counters::default();
    let mut hashes: BTreeSet<u64> = BTreeSet::new();
    let mut n = 0u64;
    let mut reruns = 0u64;
    let mut viol_reruns = 0u64;
    let mut sample: Option<Value> = None;
    let mut hyp_true = 0u64;
    let shard = (spec["shard"][0].as_u64().unwrap_or(0) as usize, spec["shard"][1].as_u64().unwrap_or(1) as usize);
    let stats = explore_sharded(bound, max_exec, shard, &mut |prefix: &[u16]| {
        let bt = modeb::run_b(&c0, prefix);
        n += 1;
        let h = trace_hash(&bt.tr.events);
        if hashes.insert(h) {
            c.nontrivial += 1;
        }
        if let Some(e) = &bt.tr.replay_error {
            c.machinery_errors.push(format!("replay divergence in {}: {e}", c0.brief()));
        }
        if bt.tr.stuck {
            c.machinery_errors.push(format!("worker neither receives nor exits in {} choices {:?}", c0.brief(), prefix));
        }
        let vs = judge_b(&c0, &bt);
        if bt.peer_done {
            hyp_true += 1;
        }
        let relevant: Vec<&MViol> = vs.iter().filter(|v| v.property_hint.iter().any(|p| props.iter().any(|q| q == p)) || v.clause.starts_with("MACHINERY")).collect();
        let choices: Vec<u16> = bt.tr.log.iter().map(|r| r.chosen).collect();
        if n % 1000 == 1 || (!relevant.is_empty() && viol_reruns < 10) {
            if !relevant.is_empty() {
                viol_reruns += 1;
            }
            let bt2 = modeb::run_b(&c0, &choices);
            reruns += 1;
            if trace_hash(&bt2.tr.events) != h {
                c.machinery_errors.push(format!("nondeterminism: replay of {} choices {:?} produced a different trace", c0.brief(), choices));
            }
        }
        for v in relevant {
            if v.clause.starts_with("MACHINERY") {
                c.machinery_errors.push(format!("{} in {}", v.what, c0.brief()));
                continue;
            }
            for p in &v.property_hint {
                if props.iter().any(|q| q == p) {
                    let mut f = v.facts.clone();
                    f.insert("role".into(), json!(if c0.x.role == Role::Sender { "sender" } else { "receiver" }));
                    c.violations.push(Violation {
                        property: p.to_string(),
                        clause: v.clause.clone(),
                        facts: f,
                        what: format!("[{}] faults {:?}: {}", c0.brief(), bt.faults, v.what),
                        replay: json!({"engine": "modeb", "cfg": c0.to_json(), "choices": choices, "faults": bt.faults, "trace": describe_events(&bt.tr.events, 60)}),
                        weight: bt.faults.len() as u64 * 10_000 + choices.len() as u64 * 10 + c0.x.ws.min(9) as u64,
                    });
                }
            }
        }
        if c.violations.len() > 600 {
            c.trim_violations(2);
        }
        if sample.is_none() && !bt.faults.is_empty() {
            sample = Some(json!({"cfg": c0.brief(), "choices": choices, "faults": bt.faults, "peer_done": bt.peer_done, "trace": describe_events(&bt.tr.events, 24)}));
        }
        (bt.tr.log, bt.steps)
    });
    c.executions = stats.executions;
    c.states = stats.executions;
    c.transitions = stats.transitions;
    c.determinism_reruns = reruns;
    if stats.capped {
        c.capped.push(format!("execution cap {} hit in {} (fault level {} completed)", max_exec, c0.brief(), stats.max_dev_completed));
    }
    c.add_extra("distinct_traces", hashes.len() as u64);
    c.add_extra("executions_completed_at_peer", hyp_true);
    for h in hashes.iter().take(32) {
        c.trace_hashes.insert(*h);
    }
    c.samples.push(sample.unwrap_or(json!({"cfg": c0.brief(), "note": "fault-free run only"})));
    c.trim_violations(2);
    c.to_json()
}

pub fn replay(v: &Value) -> String {
    let c = BCfg::from_json(&v["cfg"]);
    let choices: Vec<u16> = v["choices"].as_array().map(|a| a.iter().map(|x| x.as_u64().unwrap_or(0) as u16).collect()).unwrap_or_default();
    let once = |c: &BCfg| {
        let bt = modeb::run_b(c, &choices);
        let mut s = format!("config: {}\nfaults: {:?}\n", c.to_json(), bt.faults);
        for l in describe_events(&bt.tr.events, 200) {
            s.push_str(&format!("  {l}\n"));
        }
        s.push_str(&format!("worker panicked={} peer_done={} peer_gave_up={} final_file={:?}\n", bt.tr.panicked, bt.peer_done, bt.peer_failed, bt.tr.final_file.as_ref().map(|f| f.len())));
        for m in judge_b(c, &bt) {
            s.push_str(&format!("  monitor {} [{}]: {}\n", m.clause, m.property_hint.join(","), m.what));
        }
        s
    };
    let a = once(&c);
    let b = once(&c);
    format!("{a}\nsecond replay identical: {}", a == b)
}

pub fn bspec(c: &BCfg, bound: u64, props: &[&str]) -> Value {
    json!({"mode": "B", "cfg": c.to_json(), "bound": bound, "max_exec": 3_000_000u64, "props": props})
}

pub fn peer_variants(role: Role) -> Vec<(bool, bool, bool)> {
    match role {
        // (re-ACK duplicates, retransmit ACK on timeout, dally) — all RFC-conformant receivers
        Role::Sender => vec![(true, true, false), (true, false, false), (false, true, false), (true, true, true)],
        Role::Receiver => vec![(true, true, false)], // the reference sender has no variants
    }
}

pub fn c04_cells(tier: Tier) -> Vec<Value> {
    let p = ["C04"];
    let mut cells = vec![];
    let blk = 8usize;
    let f = if tier == Tier::Quick { 2 } else { 3 };
    for role in [Role::Sender, Role::Receiver] {
        for ws in 1..=4u16 {
            let w = ws as usize;
            let mut lens = vec![5, w * blk - 1, w * blk, w * blk + 1, 2 * w * blk + 1];
            lens.sort();
            lens.dedup();
            for len in lens {
                for (ra, at, da) in peer_variants(role) {
                    let c = bcfg(base_cfg(role, len, blk, ws), ra, at, da);
                    let blocks = len / blk + 1;
                    // three faults on the longest transfers are kept for the thorough tier's small windows
                    let fb = if tier == Tier::Thorough {
                        // four faults on the shortest lock-step/2-window transfers with the standard peer, three wherever the transfer is short
                        if ws <= 2 && blocks <= 3 && (ra, at, da) == (true, true, false) { 4 } else if blocks <= 5 { 3 } else { 2 }
                    } else if blocks > 5 { 1 } else { f };
                    if fb >= 4 {
                        for sh in 0..16 {
                            let mut v = bspec(&c, fb, &p);
                            v["max_exec"] = json!(40_000_000u64);
                            v["shard"] = json!([sh, 16]);
                            cells.push(v);
                        }
                    } else {
                        cells.push(bspec(&c, fb, &p));
                    }
                    // a peer whose own timer is faster than the worker's (only peers that emit something on their timer)
                    if at || role == Role::Receiver {
                        let mut cf = c.clone();
                        cf.fast_peer_timer = true;
                        cells.push(bspec(&cf, fb.min(2), &p));
                    }
                    // family (i): k consecutive losses of the same datagram, every position, k = 1..5
                    if (ra, at, da) == (true, true, false) {
                        let emissions = 2 * blocks + 2;
                        for li in 0..emissions {
                            for k in 1..=5usize {
                                let mut c2 = c.clone();
                                c2.lose_index = Some(li);
                                c2.lose_times = k;
                                cells.push(bspec(&c2, 0, &p));
                            }
                        }
                    }
                }
            }
        }
    }
    // family (ii): Mode A words over {deliver the next datagram, timeout}, up to 12 answers
    for role in [Role::Sender, Role::Receiver] {
        for ws in [1u16, 2, 3] {
            let w = ws as usize;
            for len in [w * blk + 1, 2 * w * blk + 1] {
                let mut x = base_cfg(role, len, blk, ws);
                x.alpha = 4;
                cells.push(json!({"mode": "A", "cfg": x.to_json(), "bound": 0, "max_exec": 3_000_000u64, "props": p}));
            }
        }
    }
    cells
}

pub fn c04_check(tier: Tier) -> Outcome {
    let mut out = Outcome::new("C04", "fault_enumeration");
    // wall-clock parts through the real Server run alongside: k consecutive losses with timeout=1, and the bundled client
    // behind a relay that loses one data-phase datagram
    let lc = crate::c07_e2::loss_cells();
    let nlc = lc.len();
    let hl = std::thread::spawn(move || run_cells("c07_e2", lc, &crate::pool_opts(Tier::Quick)));
    let mut rl = crate::c14::relay_cells("C04");
    if tier == Tier::Thorough {
        // the bundled client with -t 30: ONE receive attempt of the sending side lasts six of its 5-second retransmission
        // intervals; it is still one failed attempt, after which the datagram is retransmitted (≈ 31 s of wall clock)
        let mut s = crate::loopback::SrvCfg::basic();
        s.overwrite = true;
        rl.insert(0, json!({"srv": s.to_json(), "upload": true, "drop": 4, "t": 30, "property": "C04"}));
    }
    let nrl = rl.len();
    let hr = std::thread::spawn(move || run_cells("c14_relay", rl, &crate::pool_opts(tier)));
    let cells = c04_cells(tier);
    let (a, b): (Vec<Value>, Vec<Value>) = cells.into_iter().partition(|c| c["mode"] == "A");
    let (na, nb) = (a.len(), b.len());
    let res = run_cells("modeb", b, &crate::pool_opts(tier));
    out.absorb(res, nb);
    let res = run_cells("modea", a, &crate::pool_opts(tier));
    out.absorb(res, na);
    if let Ok(res) = hl.join() {
        out.absorb(res, nlc);
    }
    if let Ok(res) = hr.join() {
        out.absorb(res, nrl);
    }
    out.rule = format!("E1 Mode B: real Worker + reference peer (RFC 1350/1123/7440 state machine, 4 conformant receiver variants) + faulty network; every placement of up to F={} faults (drop, duplicate, delay-past-timeout, swap-with-next) over all datagrams of both directions, both orders of simultaneous timers (first {} quiet points), roles x windowsize 1..4 x lengths around block/window boundaries; plus k=1..5 consecutive losses of every datagram; plus Mode A words over {{next datagram, timeout}} up to 12 answers. Oracle: completion and byte identity of the receiving side whenever fewer than 6 faults occurred. PLUS through the real Server (both port modes, wall clock): with timeout=1 acknowledged, the same datagram lost 1, 2 or 4 times in a row is survived in both directions; and the bundled client (-t 1) behind a UDP relay that loses one of the first three data-phase datagrams still completes byte-identically. non-trivial = executions with a distinct worker trace.", if tier == Tier::Quick { 2 } else { 3 }, modeb::MAX_TIE_POINTS);
    out.assumptions = vec![
        "timers fire only when no datagram is deliverable (a datagram overtaken by a timer is the delay-past-timeout fault)".into(),
        "datagrams triggered by the peer's own timer reach the worker half a timeout into its wait".into(),
        "peer retry budget 8".into(),
    ];
    out
}

// ---------------------------------------------------------------- C15

pub fn c15_cells(tier: Tier) -> Vec<Value> {
    let p = ["C15"];
    let blk = 8usize;
    let mut cells = vec![];
    let (lens_blocks, wss): (Vec<usize>, Vec<u16>) = match tier {
        Tier::Quick => (vec![65535, 65537], vec![4, 5, 16]),
        Tier::Thorough => (vec![65534, 65535, 65536, 65537, 65538, 131073], vec![1, 2, 3, 4, 5, 16]),
    };
    for role in [Role::Sender, Role::Receiver] {
        for &ws in &wss {
            for &nb in &lens_blocks {
                // nb full blocks + 3 bytes: final block number nb+1
                let len = nb * blk + 3;
                let mut x = base_cfg(role, len, blk, ws);
                x.snapshot_tail = true;
                let mut c = bcfg(x, true, true, false);
                c.fault_window = Some(if nb > 131000 { (131066, 131077) } else { (65530, 65541) });
                // each execution replays the whole run-up (0.35 s at ws 16 ... 4 s at ws 1): budget the fault bound accordingly
                let core = nb == 65535 || nb == 65536 || nb == 65537;
                let f: u64 = match tier {
                    Tier::Quick => if ws == 5 && nb != 65537 { 0 } else { 1 },
                    Tier::Thorough => {
                        if ws == 16 && (nb == 65535 || nb == 65537) {
                            2
                        } else if core && !(ws == 1 && nb == 65536) {
                            1
                        } else if ws == 4 || ws == 16 {
                            1
                        } else {
                            0
                        }
                    }
                };
                let shards = match (tier, f, ws) {
                    (_, 2, _) => 12,
                    (Tier::Thorough, 1, 1) => 6,
                    (Tier::Thorough, 1, 2) | (Tier::Thorough, 1, 3) => 3,
                    (Tier::Thorough, 1, _) => 2,
                    _ => 1,
                };
                for sh in 0..shards {
                    let mut s = bspec(&c, f, &p);
                    s["shard"] = json!([sh, shards]);
                    cells.push(s);
                }
            }
        }
    }
    cells
}

pub fn c15_check(tier: Tier) -> Outcome {
    let mut out = Outcome::new("C15", "fault_enumeration");
    let w = crate::e2_xfer::wrap_cells(tier == Tier::Thorough);
    let nw = w.len();
    let hw = std::thread::spawn(move || run_cells("e2_wrap", w, &crate::pool_opts(tier)));
    let cells = c15_cells(tier);
    let n = cells.len();
    let res = run_cells("modeb", cells, &crate::pool_opts(tier));
    out.absorb(res, n);
    if let Ok(res) = hw.join() {
        out.absorb(res, nw);
    }
    out.rule = "E1 Mode B on transfers longer than 65535 blocks (blksize 8): real Worker + reference peer; every placement of up to F faults (drop, duplicate, delay-past-timeout, swap) restricted to the datagrams that carry or acknowledge absolute blocks 65530..65541 (131066..131077 for the second wrap), window sizes that put the wrap at the end / start / middle of a window, both roles. Oracle: slice monitor with absolute block tracking on every DATA, byte identity of the reassembled / stored file, ACK-implies-stored with file tail snapshots. PLUS uploads and downloads of 65541 blocks through the real Server over real sockets in both port modes (listener routing across the wrap). non-trivial = executions with a distinct worker trace.".into();
    out.assumptions = vec!["fault positions outside the wrap neighbourhood are covered by C01/C02/C04 on short transfers".into()];
    out
}

// ---------------------------------------------------------------- Mode B parts of C01 / C02

pub fn c01_b_cells(tier: Tier) -> Vec<Value> {
    let p = ["C01"];
    let mut cells = vec![];
    let blk = 8usize;
    for ws in 1..=4u16 {
        let w = ws as usize;
        let mut lens = vec![0, 1, blk, blk + 1, w * blk, w * blk + 1, (w + 1) * blk, 3 * w * blk + 1];
        lens.sort();
        lens.dedup();
        for len in lens {
            for (ra, at, da) in peer_variants(Role::Sender) {
                if tier == Tier::Quick && (ra, at, da) != (true, true, false) && len != w * blk + 1 {
                    continue;
                }
                let c = bcfg(base_cfg(Role::Sender, len, blk, ws), ra, at, da);
                let blocks = len / blk + 1;
                let f = match tier {
                    Tier::Quick => if blocks <= 4 { 2 } else { 1 },
                    Tier::Thorough => if blocks <= 5 && ws <= 2 { 3 } else { 2 },
                };
                cells.push(bspec(&c, f, &p));
            }
        }
    }
    cells.extend(wrap_fault_cells(Role::Sender, &p, tier));
    cells
}

/// one fault in the block-number wrap neighbourhood of a 65538-block transfer (the slice / ACK-implies-stored monitors with
/// absolute block tracking apply there exactly as anywhere else)
fn wrap_fault_cells(role: Role, props: &[&str], tier: Tier) -> Vec<Value> {
    let mut cells = vec![];
    let wss: &[u16] = if tier == Tier::Quick { &[4] } else { &[3, 4] };
    for &ws in wss {
        let mut x = base_cfg(role, 65537 * 8 + 3, 8, ws);
        x.snapshot_tail = true;
        let mut c = bcfg(x, true, true, false);
        c.fault_window = Some((65530, 65541));
        for sh in 0..6 {
            let mut s = bspec(&c, 1, props);
            s["shard"] = json!([sh, 6]);
            cells.push(s);
        }
    }
    cells
}

pub fn c02_b_cells(tier: Tier) -> Vec<Value> {
    let p = ["C02"];
    let mut cells = vec![];
    let blk = 8usize;
    for ws in 1..=4u16 {
        let w = ws as usize;
        let mut lens = vec![0, 1, blk, blk + 1, w * blk, w * blk + 1, (w + 1) * blk, 3 * w * blk + 1];
        lens.sort();
        lens.dedup();
        for len in lens {
            let c = bcfg(base_cfg(Role::Receiver, len, blk, ws), true, true, false);
            let blocks = len / blk + 1;
            let f = match tier {
                Tier::Quick => if blocks <= 4 { 2 } else { 1 },
                Tier::Thorough => if blocks <= 5 && ws <= 2 { 3 } else { 2 },
            };
            cells.push(bspec(&c, f, &p));
        }
    }
    cells.extend(wrap_fault_cells(Role::Receiver, &p, tier));
    cells
}
