//! E2 / C09 option negotiation: all ordered selections of the four options with boundary values, name casing,
//! unknown options, duplicates, both request kinds, both port modes, several file lengths — against the real Server.
//! Oracle: a reference negotiator written from the statement, plus the observed shape of the ensuing transfer.

use crate::loopback::*;
use crate::refcodec::{self as rc, RPacket};
use crate::util::*;
use crate::{Outcome, Tier};
use serde_json::{json, Value};
use std::time::{Duration, Instant};

const NAMES: [&str; 4] = ["blksize", "timeout", "tsize", "windowsize"];

fn values(name: &str) -> Vec<&'static str> {
    match name {
        "blksize" => vec!["512", "9", "0", "7", "8", "65464", "65465"],
        "timeout" => vec!["1", "0", "255", "256"],
        "tsize" => vec!["0", "12345"],
        _ => vec!["2", "0", "1", "65535", "65536"],
    }
}

fn honourable(name: &str, v: u128) -> bool {
    match name {
        "blksize" => (8..=65464).contains(&v),
        "timeout" => v >= 1,
        "windowsize" => (1..=65535).contains(&v),
        _ => true,
    }
}

fn lower(s: &str) -> String {
    s.to_ascii_lowercase()
}

fn file_content(len: usize) -> Vec<u8> {
    content(len, 77 + len as u64)
}

const FILE_LENS: [usize; 5] = [0, 511, 512, 1025, 70000];

fn plant(srv: &Srv) {
    for l in FILE_LENS {
        let p = format!("{}/f{}", srv.send_dir, l);
        if std::fs::metadata(&p).map(|m| m.len() as usize != l).unwrap_or(true) {
            let _ = std::fs::write(&p, file_content(l));
        }
    }
}

/// Judges one request. Returns (outcome summary, violations, transferred?)
fn judge(srv: &Srv, write: bool, flen: usize, opts: &[(String, String)], seq: usize) -> (String, Vec<(String, String)>, bool) {
    let mut viol: Vec<(String, String)> = vec![];
    let recognised: Vec<(String, u128, bool)> = opts
        .iter()
        .filter(|(n, _)| NAMES.contains(&lower(n).as_str()))
        .map(|(n, v)| {
            let val = v.parse::<u128>().unwrap_or(u128::MAX);
            (lower(n), val, honourable(&lower(n), val))
        })
        .collect();
    let all_ok = recognised.iter().all(|r| r.2);
    let desc = format!("{} f{} opts {:?}", if write { "WRQ" } else { "RRQ" }, flen, opts);
    let (first, oack, error, completed, anomalies, block_lens, data_ok, window_exceeded, stored): (String, Option<Vec<(String, String)>>, Option<(u16, String)>, bool, Vec<String>, Vec<usize>, bool, bool, Option<Vec<u8>>);
    let want = file_content(flen);
    if !write {
        // with a window of two or more, the first window is acknowledged only partially (its first block): the server must go
        // back and send exactly the acknowledged number of blocks again, not more
        let wants_window = opts.iter().any(|(n, v)| lower(n) == "windowsize" && v.parse::<u64>().map(|x| (2..=64).contains(&x)).unwrap_or(false));
        let r = download_mode(srv, format!("f{flen}").as_bytes(), opts, Some(Duration::from_micros(300)), if wants_window && seq % 2 == 0 { 4 } else { 0 });
        data_ok = r.data == want;
        first = r.first;
        oack = r.oack;
        error = r.error;
        completed = r.completed;
        anomalies = r.anomalies;
        block_lens = r.block_lens;
        window_exceeded = r.window_exceeded;
        stored = None;
    } else {
        let name = format!("up_{}_{}", std::process::id(), seq);
        let r = upload(srv, name.as_bytes(), opts, &want);
        let path = format!("{}/{}", srv.recv_dir, name);
        stored = std::fs::read(&path).ok();
        let _ = std::fs::remove_file(&path);
        data_ok = stored.as_deref() == Some(&want[..]);
        first = r.first;
        oack = r.oack;
        error = r.error;
        completed = r.completed;
        anomalies = r.anomalies;
        block_lens = vec![];
        window_exceeded = false;
    }
    let summary = format!("first={} oack={:?} err={:?} done={}", first.split('(').next().unwrap_or(""), oack, error.as_ref().map(|e| e.0), completed);
    // universal: no OACK ever carries a value the server cannot honour, or an option that was not requested
    if let Some(o) = &oack {
        for (n, v) in o {
            let val = v.parse::<u128>().unwrap_or(u128::MAX);
            if !NAMES.contains(&n.as_str()) || !honourable(n, val) {
                viol.push(("oack-illegal-value".into(), format!("{desc}: OACK carries {n}={v}")));
            }
            let req: Vec<&(String, u128, bool)> = recognised.iter().filter(|r| &r.0 == n).collect();
            if req.is_empty() {
                viol.push(("oack-unrequested".into(), format!("{desc}: OACK lists {n} which was not requested")));
            } else if n == "tsize" {
                let expect = if write { req.iter().map(|r| r.1).collect::<Vec<_>>() } else { vec![flen as u128] };
                if !expect.contains(&val) {
                    viol.push(("oack-tsize".into(), format!("{desc}: OACK tsize={v}, expected {:?}", expect)));
                }
            } else {
                let maxreq = req.iter().map(|r| r.1).max().unwrap();
                if val > maxreq {
                    viol.push(("oack-exceeds-request".into(), format!("{desc}: OACK {n}={v} exceeds the requested {maxreq}")));
                }
            }
        }
    }
    if recognised.is_empty() {
        // RFC 1350 defaults: DATA 1 (<= 512 bytes) or ACK 0 as first reply, lock-step
        let ok_first = if write { first == "ACK(0)" } else { first.starts_with("DATA(1,") };
        if !ok_first {
            viol.push(("defaults-first-reply".into(), format!("{desc}: no recognised option, but the first reply was {first}")));
        }
    } else if all_ok {
        if oack.is_none() {
            viol.push(("oack-missing".into(), format!("{desc}: recognised, honourable options were requested but the first reply was {first}")));
        }
    } else {
        // un-honourable value somewhere: any answer is fine as long as it does not acknowledge it (checked above)
    }
    // the ensuing transfer uses precisely the acknowledged values (defaults for everything not acknowledged)
    let acked = |n: &str| oack.as_ref().and_then(|o| opt_val(o, n));
    let blk = acked("blksize").unwrap_or(512) as usize;
    let transferred = completed;
    let started = oack.is_some() || (recognised.is_empty() && error.is_none() && first != "none");
    if started && error.is_none() && blk >= 1 {
        if !completed {
            viol.push(("transfer-incomplete".into(), format!("{desc}: transfer accepted ({first}) but it did not complete with the acknowledged values: {:?}", anomalies)));
        } else {
            if !data_ok {
                viol.push(("transfer-content".into(), format!("{desc}: transfer completed but content differs (blocks {:?}, stored {:?} bytes)", &block_lens[..block_lens.len().min(6)], stored.as_ref().map(|s| s.len()))));
            }
            if !write {
                // every non-final DATA has exactly the acknowledged block length
                let n = block_lens.len();
                if block_lens.iter().take(n.saturating_sub(1)).any(|l| *l != blk) || block_lens.last().map(|l| *l >= blk).unwrap_or(true) {
                    viol.push(("transfer-blksize".into(), format!("{desc}: DATA lengths {:?} do not match the acknowledged block size {blk}", &block_lens[..block_lens.len().min(8)])));
                }
                if window_exceeded {
                    viol.push(("transfer-windowsize".into(), format!("{desc}: {:?}", anomalies)));
                }
            }
            if !anomalies.is_empty() && !window_exceeded {
                viol.push(("transfer-shape".into(), format!("{desc}: {:?}", &anomalies[..anomalies.len().min(4)])));
            }
        }
    }
    (summary, viol, transferred)
}

fn opt_lists(tier: Tier) -> Vec<Vec<(String, String)>> {
    let mut out: Vec<Vec<(String, String)>> = vec![vec![]];
    let nominal = |n: &str| values(n)[0].to_string();
    let s = |a: &str, b: &str| (a.to_string(), b.to_string());
    // permutations of k distinct options
    fn perms(k: usize, cur: &mut Vec<usize>, out: &mut Vec<Vec<usize>>) {
        if cur.len() == k {
            out.push(cur.clone());
            return;
        }
        for i in 0..4 {
            if !cur.contains(&i) {
                cur.push(i);
                perms(k, cur, out);
                cur.pop();
            }
        }
    }
    let mut orders: Vec<Vec<usize>> = vec![];
    for k in 1..=4 {
        perms(k, &mut vec![], &mut orders);
    }
    match tier {
        Tier::Quick => {
            for o in &orders {
                // every order with nominal values
                out.push(o.iter().map(|i| s(NAMES[*i], &nominal(NAMES[*i]))).collect());
                // every boundary value of one member, the others nominal (orders of length <= 2)
                if o.len() <= 2 {
                    for (pos, i) in o.iter().enumerate() {
                        for v in values(NAMES[*i]).iter().skip(1) {
                            let mut l: Vec<(String, String)> = o.iter().map(|j| s(NAMES[*j], &nominal(NAMES[*j]))).collect();
                            l[pos].1 = v.to_string();
                            out.push(l);
                        }
                    }
                }
            }
        }
        Tier::Thorough => {
            // full cross product of values for every order
            for o in &orders {
                let mut lists: Vec<Vec<(String, String)>> = vec![vec![]];
                for i in o {
                    let mut next = vec![];
                    for l in &lists {
                        for v in values(NAMES[*i]) {
                            let mut l2 = l.clone();
                            l2.push(s(NAMES[*i], v));
                            next.push(l2);
                        }
                    }
                    lists = next;
                }
                out.extend(lists);
            }
        }
    }
    // name casing, unknown options at every position, duplicates, huge / non-numeric handled by C05/C10
    let base: Vec<(String, String)> = vec![s("blksize", "9"), s("windowsize", "2"), s("tsize", "0")];
    for case in 0..2 {
        let l: Vec<(String, String)> = base.iter().map(|(n, v)| (if case == 0 { n.to_uppercase() } else { n.chars().enumerate().map(|(i, c)| if i % 2 == 0 { c.to_ascii_uppercase() } else { c }).collect() }, v.clone())).collect();
        out.push(l);
    }
    for pos in 0..=base.len() {
        let mut l = base.clone();
        l.insert(pos, s("frobnicate", "17"));
        out.push(l);
    }
    // unknown names that merely RESEMBLE a recognised one (digits or letters appended / prepended, a prefix of it): ignored,
    // alone (no OACK at all) and next to a recognised option (OACK lists only that one)
    for near in ["blksize2", "blksize0", "timeout1", "tsize64", "windowsize2", "xblksize", "blksiz", "blk size", "tsize ", "windowsizes", "time-out"] {
        out.push(vec![s(near, "1024")]);
        out.push(vec![s(near, "4"), s("blksize", "9")]);
    }
    out.push(vec![s("frobnicate", "17")]);
    out.push(vec![s("frobnicate", "17"), s("X", "")]);
    out.push(vec![s("blksize", "9"), s("blksize", "9")]);
    out.push(vec![s("windowsize", "2"), s("blksize", "9"), s("windowsize", "2")]);
    out.push(vec![s("blksize", "1428"), s("windowsize", "4"), s("timeout", "3"), s("tsize", "0")]);
    out.push(vec![s("blksize", "65464"), s("windowsize", "3")]);
    out
}

pub fn cell(spec: &Value) -> Value {
    let cfg = SrvCfg::from_json(&spec["srv"]);
    let mut c = Counters::default();
    // single-port servers keep state across requests (listener buffer size, routing table): give every cell its own
    let srv = match if cfg.single { server_fresh(&cfg) } else { server_for(&cfg) } {
        Ok(s) => s,
        Err(e) => return json!({"machinery_error": format!("server start: {e}")}),
    };
    plant(&srv);
    if spec["family"] == "interval" {
        return interval_cell(&srv, &cfg, spec);
    }
    if spec["family"] == "special" {
        return special_cell(&srv, &cfg, spec);
    }
    let tier = if spec["tier"] == "thorough" { Tier::Thorough } else { Tier::Quick };
    let lists = opt_lists(tier);
    let lo = spec["lo"].as_u64().unwrap() as usize;
    let hi = (spec["hi"].as_u64().unwrap() as usize).min(lists.len());
    let write = spec["write"].as_bool().unwrap();
    let mut outcomes: std::collections::BTreeSet<u64> = Default::default();
    let mut seq = 0usize;
    let budget = Budget::new();
    for li in lo..hi {
        if budget.over(&mut c) {
            break;
        }
        let opts = &lists[li];
        let big_blk = opts.iter().any(|(n, v)| lower(n) == "blksize" && v.parse::<u64>().map(|x| x > 2000).unwrap_or(false));
        for &flen in FILE_LENS.iter() {
            if flen == 70000 && !big_blk {
                continue;
            }
            seq += 1;
            let (summary, viol, transferred) = judge(&srv, write, flen, opts, seq);
            c.executions += 1;
            c.states += 1;
            c.transitions += 1;
            if transferred {
                c.nontrivial += 1;
            }
            outcomes.insert(fnv64(summary.as_bytes()));
            if c.samples.is_empty() && transferred && opts.len() >= 2 {
                c.samples.push(json!({"srv": cfg.brief(), "request": if write { "WRQ" } else { "RRQ" }, "file_len": flen, "options": opts, "outcome": summary}));
            }
            for (clause, what) in viol {
                c.violations.push(Violation {
                    property: "C09".into(),
                    clause,
                    facts: facts(&[("write", json!(write))]),
                    what: format!("[{}] {}", cfg.brief(), what),
                    replay: json!({"engine": "e2_c09", "srv": cfg.to_json(), "write": write, "flen": flen, "opts": opts}),
                    weight: opts.len() as u64 * 100 + flen.min(99) as u64,
                });
            }
            if c.violations.len() > 400 {
                c.trim_violations(3);
            }
        }
    }
    if !quiesce() {
        c.machinery_errors.push("server not quiescent at the end of a C09 cell".into());
    }
    for o in outcomes {
        c.trace_hashes.insert(o);
    }
    c.trim_violations(3);
    c.to_json()
}

/// Requests whose answer depends on something other than the option list: the SIZE of the file on disk (4 GiB and more,
/// sparse files), the KIND of directory entry (a symbolic link inside the send directory to a file inside it), and the
/// spelling of the transfer mode (RFC 1350: case-insensitive).
fn special_cell(srv: &Srv, cfg: &SrvCfg, spec: &Value) -> Value {
    let mut c = Counters::default();
    let mut viol: Vec<(String, String)> = vec![];
    let tz = |v: &str| vec![("tsize".to_string(), v.to_string())];
    // (i) big sparse files: only the OACK is read, then the transfer is aborted
    for size in [(1u64 << 32) - 1, 1u64 << 32, (1u64 << 32) + 5, 3 * (1u64 << 32) + 12345] {
        let name = format!("big_{size}");
        let p = format!("{}/{}", srv.send_dir, name);
        let made = std::fs::File::create(&p).and_then(|f| f.set_len(size));
        if made.is_err() {
            c.machinery_errors.push(format!("cannot create a sparse file of {size} bytes in {}", srv.send_dir));
            continue;
        }
        for extra in [false, true] {
            let mut opts = tz("0");
            if extra {
                opts.insert(0, ("blksize".to_string(), "1024".to_string()));
            }
            let mut cl = Client::new(srv.addr);
            cl.to_server(&rc::request(false, name.as_bytes(), &opts));
            let first = reply_or_quiet(srv, &mut cl);
            c.executions += 1;
            c.states += 1;
            c.transitions += 2;
            match first.as_ref().map(|(b, _)| rc::decode(b)) {
                Some(Ok(RPacket::Oack(o))) => {
                    c.nontrivial += 1;
                    let o = parse_opts(&o);
                    let got = o.iter().find(|(n, _)| n == "tsize").map(|(_, v)| v.clone());
                    if got.as_deref() != Some(size.to_string().as_str()) {
                        viol.push(("oack-tsize".into(), format!("RRQ of a {size}-byte file with {:?}: OACK tsize = {:?}, the file's true size is {size}", opts, got)));
                    }
                    cl.to_peer(&rc::ack(0));
                    let _ = cl.recv_wait(Duration::from_millis(500));
                    cl.to_peer_guarded(&rc::error(0, "only the OACK was wanted"));
                }
                other => viol.push(("oack-missing".into(), format!("RRQ of a {size}-byte file with {:?}: first reply {:?} instead of an OACK", opts, other.map(|r| r.map(|p| format!("{:?}", p).chars().take(40).collect::<String>()))))),
            }
            quiesce();
        }
        let _ = std::fs::remove_file(&p);
    }
    // (ii) a symbolic link inside the send directory to a regular file inside it
    {
        let real = file_content(2500);
        let _ = std::fs::write(format!("{}/real.bin", srv.send_dir), &real);
        let lp = format!("{}/link.bin", srv.send_dir);
        let _ = std::fs::remove_file(&lp);
        if std::os::unix::fs::symlink("real.bin", &lp).is_ok() {
            let r = download(srv, b"link.bin", &tz("0"));
            c.executions += 1;
            c.states += 1;
            c.transitions += r.block_lens.len() as u64 + 1;
            c.nontrivial += 1;
            let got = r.oack.as_ref().and_then(|o| o.iter().find(|(n, _)| n == "tsize").map(|(_, v)| v.clone()));
            if got.as_deref() != Some("2500") {
                viol.push(("oack-tsize".into(), format!("RRQ of a symbolic link to a 2500-byte file with tsize=0: OACK tsize = {:?}", got)));
            }
            if !r.completed || r.data != real {
                viol.push(("transfer-content".into(), format!("RRQ of a symbolic link to a 2500-byte file: completed={} received {} bytes", r.completed, r.data.len())));
            }
            let _ = std::fs::remove_file(&lp);
        }
    }
    // (ii-b) history: the size announced by an earlier WRQ of the same name (here an untruthful one) and the size the file
    // had at an earlier request are no guide — tsize is the size on disk NOW
    if srv.send_dir == srv.recv_dir {
        let name = format!("hist_{}.bin", std::process::id());
        let p = format!("{}/{}", srv.send_dir, name);
        let _ = std::fs::remove_file(&p);
        let up = upload(srv, name.as_bytes(), &tz("5"), &file_content(20));
        c.executions += 1;
        c.states += 1;
        if up.completed {
            for (rewrite, want) in [(None, 20usize), (Some(77usize), 77), (Some(3usize), 3)] {
                if let Some(n) = rewrite {
                    let _ = std::fs::write(&p, file_content(n));
                }
                let r = download(srv, name.as_bytes(), &tz("0"));
                c.executions += 1;
                c.states += 1;
                c.transitions += 2;
                c.nontrivial += 1;
                let got = r.oack.as_ref().and_then(|o| o.iter().find(|(n, _)| n == "tsize").map(|(_, v)| v.clone()));
                if got.as_deref() != Some(want.to_string().as_str()) || !r.completed || r.data.len() != want {
                    viol.push(("oack-tsize".into(), format!("RRQ with tsize=0 for a file that was uploaded with an announced tsize of 5 (20 bytes sent){}: OACK tsize = {:?}, completed={} with {} bytes; the file holds {want} bytes", if rewrite.is_some() { " and then rewritten on disk" } else { "" }, got, r.completed, r.data.len())));
                }
            }
        }
        let _ = std::fs::remove_file(&p);
    }
    // (ii-c) a window that is large in BYTES (600 blocks of 65464 bytes = 39 MB in flight) through the real Server: the first
    // transmission carries exactly the acknowledged 600 blocks (the client's receive buffer is enlarged to hold them)
    {
        let blocks = 601usize;
        let data = file_content(blocks * 65464 + 5);
        let _ = std::fs::write(format!("{}/wide.bin", srv.send_dir), &data);
        let mut cl = Client::new(srv.addr);
        rcvbuf(&cl.sock, 400 * 1024 * 1024);
        let opts = vec![("blksize".to_string(), "65464".to_string()), ("windowsize".to_string(), "600".to_string())];
        let r = download_on(&mut cl, srv, b"wide.bin", &opts, None, 0);
        c.executions += 1;
        c.states += 1;
        c.transitions += r.block_lens.len() as u64;
        c.nontrivial += 1;
        let acked_ws = r.oack.as_ref().and_then(|o| o.iter().find(|(n, _)| n == "windowsize").and_then(|(_, v)| v.parse::<usize>().ok()));
        let first = r.bursts.first().map(|b| b.len()).unwrap_or(0);
        if !r.completed || r.data != data {
            viol.push(("transfer-content".into(), format!("RRQ with blksize=65464 windowsize=600 of a {}-byte file: completed={} with {} bytes; anomalies {:?}", data.len(), r.completed, r.data.len(), &r.anomalies[..r.anomalies.len().min(3)])));
        } else if let Some(w) = acked_ws {
            if first != w.min(blocks + 1) {
                viol.push(("window-not-filled".into(), format!("RRQ with blksize=65464 windowsize=600: OACK windowsize={w}, but the first transmission carried {first} blocks ({} blocks in the file)", blocks + 1)));
            }
        }
        let _ = std::fs::remove_file(format!("{}/wide.bin", srv.send_dir));
    }
    // (iii) spellings of the transfer mode: the whole judgement of the option grid applies unchanged
    let mut seq = 900_000usize;
    for mode in ["OCTET", "Octet", "oCtEt"] {
        rc::set_mode(mode);
        for write in [false, true] {
            for opts in [vec![], vec![("blksize".to_string(), "8".to_string())], vec![("TSIZE".to_string(), "0".to_string()), ("windowsize".to_string(), "2".to_string())]] {
                seq += 1;
                let (_, v, transferred) = judge(srv, write, 1025, &opts, seq);
                c.executions += 1;
                c.states += 1;
                c.transitions += 1;
                if transferred {
                    c.nontrivial += 1;
                }
                for (clause, what) in v {
                    viol.push((clause, format!("[mode spelled {mode:?}] {what}")));
                }
            }
        }
        // refusals do not depend on the spelling either
        let r = download(srv, b"no_such_file", &[]);
        c.executions += 1;
        c.states += 1;
        if r.error.as_ref().map(|e| e.0) != Some(1) {
            viol.push(("mode-spelling-refusal".into(), format!("[mode spelled {mode:?}] RRQ for a missing file: first reply {} error {:?} instead of ERROR 1", r.first, r.error)));
        }
    }
    for mode in ["NETASCII", "NetAscii", "netascii"] {
        // (no statement about netascii translation: only the kind of the first reply is judged)
        rc::set_mode(mode);
        let mut cl = Client::new(srv.addr);
        cl.to_server(&rc::request(false, b"f1025", &[("blksize".to_string(), "8".to_string())]));
        let first = reply_or_quiet(srv, &mut cl);
        c.executions += 1;
        c.states += 1;
        if !matches!(first.as_ref().map(|(b, _)| rc::decode(b)), Some(Ok(RPacket::Oack(_)))) {
            viol.push(("oack-missing".into(), format!("[mode spelled {mode:?}] RRQ with blksize=8: first reply {} instead of an OACK", first.as_ref().map(|(b, _)| rc::describe(b)).unwrap_or("none".into()))));
        } else {
            cl.to_peer(&rc::ack(0));
            let _ = cl.recv_wait(Duration::from_millis(300));
        }
        cl.to_peer_guarded(&rc::error(0, "enough"));
        quiesce();
    }
    rc::set_mode("octet");
    c.trace_hashes.insert(fnv64(format!("special{}", cfg.single).as_bytes()));
    c.samples.push(json!({"srv": cfg.brief(), "family": "file sizes of 4 GiB and more (sparse), symbolic link, mode spellings"}));
    for (clause, what) in viol {
        c.violations.push(Violation { property: "C09".into(), clause, facts: facts(&[("single", json!(cfg.single))]), what: format!("[{}] {}", cfg.brief(), what), replay: json!({"engine": "e2_c09", "srv": cfg.to_json(), "special": true, "spec": spec}), weight: 5 });
    }
    if !quiesce() {
        c.machinery_errors.push("server not quiescent at the end of the C09 special cell".into());
    }
    c.trim_violations(3);
    c.to_json()
}

/// The one wall-clock clause: the retransmission interval equals the acknowledged timeout.
/// The client withholds one ACK and measures the gap to the retransmission. Lower bound strict (noise can only
/// lengthen the gap), upper bound lenient.
fn interval_cell(srv: &Srv, cfg: &SrvCfg, spec: &Value) -> Value {
    let mut c = Counters::default();
    let t = spec["timeout"].as_u64().unwrap();
    let write = spec["write"].as_bool().unwrap_or(false);
    let mut cl = Client::new(srv.addr);
    let opts = vec![("timeout".to_string(), t.to_string())];
    c.executions = 1;
    c.states = 1;
    c.transitions = 1;
    let mut viol: Option<String> = None;
    let name = if write { format!("iv_{}", std::process::id()) } else { "f1025".to_string() };
    cl.to_server(&rc::request(write, name.as_bytes(), &opts));
    let first = reply_or_quiet(srv, &mut cl);
    let mut measured_ms = -1.0;
    match first.as_ref().map(|(b, _)| rc::decode(b)) {
        Some(Ok(RPacket::Oack(_))) => {
            if !write {
                cl.to_peer(&rc::ack(0));
                // DATA(1) arrives; withhold its ACK and wait for the retransmission
                let t0 = Instant::now();
                let d1 = cl.recv_wait(Duration::from_secs(3));
                if d1.is_none() {
                    viol = Some("no DATA(1) after ACK(0)".into());
                } else {
                    let t1 = Instant::now();
                    let _ = t0;
                    if spec["dup_ack_before_timeout"].as_bool().unwrap_or(false) {
                        // 0.7 s before the acknowledged interval is over, a duplicate ACK(0) arrives: it must not
                        // trigger anything (the transfer has to use the ACKNOWLEDGED interval, even if it exceeds the default)
                        std::thread::sleep(Duration::from_millis(t * 1000 - 700));
                        cl.to_peer(&rc::ack(0));
                    }
                    let dup_variant = spec["dup_ack_before_timeout"].as_bool().unwrap_or(false);
                    let wait_until = if dup_variant { Duration::from_millis(t * 1000 + 300) } else { Duration::from_millis(t * 1000 + 2500) };
                    let again = cl.recv_wait(wait_until.saturating_sub(t1.elapsed()));
                    match again {
                        // (after a stray datagram the receive timeout starts afresh, so the retransmission itself may come up
                        // to one more interval later: only "not before the acknowledged interval" is checked in that variant)
                        None if dup_variant => {}
                        None => viol = Some(format!("no retransmission within {} ms although timeout={t}s was acknowledged", t * 1000 + 2500)),
                        Some((b, _)) => {
                            let gap = t1.elapsed();
                            measured_ms = gap.as_secs_f64() * 1000.0;
                            if gap < Duration::from_millis(t * 1000 - 20) {
                                viol = Some(format!("retransmission of {} after {:.0} ms, earlier than the acknowledged timeout of {t} s", rc::describe(&b), measured_ms));
                            } else if gap > Duration::from_millis(t * 1000 + 1500) {
                                viol = Some(format!("retransmission only after {:.0} ms, acknowledged timeout was {t} s", measured_ms));
                            }
                        }
                    }
                }
                cl.to_peer(&rc::error(0, "done measuring"));
            } else {
                // upload: the receiver's wait is bounded by the same interval; after the OACK send nothing and count how long the
                // worker lives: 6 timeouts of t seconds — too slow to measure routinely; only the OACK echo is checked here
                cl.to_peer_guarded(&rc::error(0, "done"));
            }
        }
        other => viol = Some(format!("timeout={t} was not acknowledged with an OACK: {:?}", other.map(|r| r.map(|_| "other packet")))),
    }
    quiesce();
    if write {
        let _ = std::fs::remove_file(format!("{}/{}", srv.recv_dir, name));
    }
    c.nontrivial = 1;
    c.samples.push(json!({"srv": cfg.brief(), "family": "retransmission interval", "timeout_s": t, "measured_gap_ms": measured_ms}));
    c.trace_hashes.insert(fnv64(format!("iv{t}{write}{}", cfg.single).as_bytes()));
    if let Some(w) = viol {
        let prop = spec["property"].as_str().unwrap_or("C09").to_string();
        c.violations.push(Violation { property: prop, clause: "retransmission-interval".into(), facts: facts(&[("write", json!(write))]), what: format!("[{}] {}", cfg.brief(), w), replay: json!({"engine": "e2_c09", "srv": cfg.to_json(), "interval": t}), weight: 1 });
    }
    c.to_json()
}

pub fn check(tier: Tier) -> Outcome {
    let nlists = opt_lists(tier).len();
    let mut cells = vec![];
    let chunk = if tier == Tier::Quick { 12 } else { 60 };
    for single in [false, true] {
        let mut s = SrvCfg::basic();
        s.single = single;
        s.overwrite = true;
        // the wall-clock cells first so that they overlap with the rest
        let touts: &[u64] = if tier == Tier::Quick { &[1] } else { &[1, 2, 3] };
        for &t in touts {
            cells.push(json!({"srv": s.to_json(), "family": "interval", "timeout": t, "write": false}));
        }
        // an interval above the 5 s default, with a duplicate ACK shortly before it elapses
        cells.push(json!({"srv": s.to_json(), "family": "interval", "timeout": 6, "write": false, "dup_ack_before_timeout": true}));
        // ... and in plain silence (the interval must be neither shorter nor longer; both socket kinds implement the wait)
        cells.push(json!({"srv": s.to_json(), "family": "interval", "timeout": 6, "write": false}));
        cells.push(json!({"srv": s.to_json(), "family": "special"}));
        for write in [false, true] {
            let mut lo = 0;
            while lo < nlists {
                cells.push(json!({"srv": s.to_json(), "family": "grid", "tier": tier.name(), "write": write, "lo": lo, "hi": lo + chunk}));
                lo += chunk;
            }
        }
    }
    let n = cells.len();
    // "precisely the acknowledged blocks per window" for windows that are large in BYTES or in BLOCKS (beyond what a real
    // socket buffer takes): the real Worker on the simulated socket, conformant peer, every burst / every ACK position judged
    let mut big = vec![];
    {
        use crate::e1_checks::{base_cfg, cell_spec};
        use crate::modea::Role;
        for (role, blk, ws, blocks) in [(Role::Receiver, 8usize, 40000u16, 40001usize), (Role::Receiver, 8, 65535, 65536), (Role::Sender, 8, 40000, 40001), (Role::Sender, 65464, 600, 601), (Role::Sender, 8192, 5000, 5001), (Role::Receiver, 1024, 33000, 33001)] {
            let mut x = base_cfg(role, blocks * blk + 3, blk, ws);
            x.alpha = 3;
            x.snapshot_tail = true;
            big.push(cell_spec(&x, 0, 1_000_000, &["C09"]));
        }
    }
    let nbig = big.len();
    let hbig = std::thread::spawn(move || run_cells("modea", big, &crate::pool_opts(tier)));
    let res = run_cells("c09", cells, &crate::pool_opts(tier));
    let mut out = Outcome::new("C09", "model_checking");
    out.absorb(res, n);
    if let Ok(r) = hbig.join() {
        out.absorb(r, nbig);
    }
    out.rule = format!("{nlists} option lists: every ordered selection of 1..4 distinct options ({}), plus upper/mixed-case names, an unknown option at every position, unknown names that resemble recognised ones (blksize2, tsize64, xblksize, blksiz ...), duplicated options; x {{RRQ, WRQ}} x {{multi-port, single-port}} x file lengths {{0, 511, 512, 1025}} (70000 with large block sizes); every accepted request is carried to its end by a reference client that follows the acknowledged values. Oracle: reference negotiator (OACK iff a recognised honourable option was requested; names subset; blksize/timeout/windowsize <= requested; tsize = true size / echo; never timeout 0, windowsize 0 or > 65535, blksize outside 8..65464) and transfer shape (non-final DATA length = acknowledged blksize, nothing beyond the acknowledged window before its ACK, upload ACKs per window, byte identity). The retransmission interval is the one wall-clock clause: measured with a strict lower and lenient upper bound for timeout {} and 6 s (above the default). PLUS requests whose answer depends on the file rather than on the option list: sparse files of 2^32-1, 2^32, 2^32+5 and 3*2^32+12345 bytes (tsize in the OACK), a symbolic link inside the send directory, a file uploaded earlier with an untruthful tsize and then rewritten on disk, and the option grid's judgement under the mode spellings OCTET / Octet / oCtEt (first reply kind also for netascii spellings). PLUS (E1, simulated socket) windows that are large in bytes or blocks (40000 and 65535 blocks of 8 bytes, 600 blocks of 65464 bytes, 5000 of 8192, 33000 of 1024): every transmission after a full-window ACK carries exactly the acknowledged number of blocks and the receiver acknowledges exactly at the window's end. non-trivial = requests that completed a transfer. states = requests, transitions = requests.", if tier == Tier::Quick { "nominal values for every order; every boundary value of each option alone and in ordered pairs" } else { "full cross product of boundary values" }, if tier == Tier::Quick { "1 s" } else { "1, 2, 3 s" });
    out.assumptions = vec!["values beyond 2^16 and non-numeric values belong to C05/C10".into(), "the wall-clock clause tolerates +1.5 s of scheduling noise upwards, 20 ms downwards".into()];
    out
}

pub fn replay(v: &Value) -> String {
    let cfg = SrvCfg::from_json(&v["srv"]);
    let srv = match server_for(&cfg) {
        Ok(s) => s,
        Err(e) => return format!("server start failed: {e}"),
    };
    plant(&srv);
    if v.get("interval").is_some() {
        return "re-run ./check C09 quick (wall-clock clause)".into();
    }
    let opts: Vec<(String, String)> = v["opts"].as_array().map(|a| a.iter().map(|p| (p[0].as_str().unwrap_or("").to_string(), p[1].as_str().unwrap_or("").to_string())).collect()).unwrap_or_default();
    let (s, viol, _) = judge(&srv, v["write"].as_bool().unwrap_or(false), v["flen"].as_u64().unwrap_or(0) as usize, &opts, 1);
    format!("{s}\n violations: {:?}", viol)
}
