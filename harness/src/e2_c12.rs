//! E2 / C12 isolation of concurrent transfers: all interleavings of the datagram sequences of K reference clients,
//! plus one intruder datagram at every position, against the real Server in both port modes.

use crate::loopback::*;
use crate::refcodec::{self as rc, RPacket};
use crate::util::*;
use crate::{Outcome, Tier};
use serde_json::{json, Value};
use std::net::SocketAddr;
use std::time::{Duration, Instant};

#[derive(Clone, Copy, PartialEq, Debug)]
pub enum Script {
    D2, // download, 2 blocks, lock-step
    Dw, // download, blksize 8 / windowsize 2, 3 blocks
    U2, // upload, 2 blocks, lock-step
    Ub, // upload, blksize 1024, 2 blocks
    D1, // download, 1 block (3-step scripts for K = 3 are D1/U1)
    U1, // upload, 1 block
    Da, // download of a 2-block file that the CLIENT aborts with an ERROR after the first block
}

impl Script {
    fn name(&self) -> &'static str {
        match self {
            Script::D2 => "D2",
            Script::Dw => "Dw",
            Script::U2 => "U2",
            Script::Ub => "Ub",
            Script::D1 => "D1",
            Script::U1 => "U1",
            Script::Da => "Da",
        }
    }
    fn from(s: &str) -> Script {
        match s {
            "D2" => Script::D2,
            "Dw" => Script::Dw,
            "U2" => Script::U2,
            "Ub" => Script::Ub,
            "D1" => Script::D1,
            "Da" => Script::Da,
            _ => Script::U1,
        }
    }
    fn steps(&self) -> usize {
        match self {
            Script::D2 => 3,
            Script::Dw => 4,
            Script::U2 => 3,
            Script::Ub => 3,
            Script::D1 => 2,
            Script::U1 => 2,
            Script::Da => 2,
        }
    }
    fn is_upload(&self) -> bool {
        matches!(self, Script::U2 | Script::Ub | Script::U1)
    }
}

fn file_for(script: Script, variant: usize) -> (String, Vec<u8>) {
    // downloads: the file to fetch; uploads: the payload
    let (name, len) = match script {
        Script::D2 => (format!("d2_{variant}"), 600),
        Script::Dw => (format!("dw_{variant}"), 20),
        Script::D1 => (format!("d1_{variant}"), 100),
        Script::U2 => (format!("u2_{variant}"), 700),
        Script::Ub => (format!("ub_{variant}"), 1500),
        Script::U1 => (format!("u1_{variant}"), 90),
        Script::Da => (format!("da_{variant}"), 600),
    };
    let salt = 500 + variant as u64 * 7 + len as u64;
    (name, content(len, salt))
}

struct Cl {
    script: Script,
    c: Client,
    name: String,
    body: Vec<u8>,
    step: usize,
    got: Vec<u8>,
    failed: Option<String>,
    done: bool,
    last_sent: Vec<u8>,
    /// positions (in the interleaving) of this client's first and last step: two transfers overlap in time iff these intervals intersect
    first_pos: Option<usize>,
    last_pos: usize,
}

impl Cl {
    fn expect(&mut self, n: usize) -> Vec<Vec<u8>> {
        let mut out = vec![];
        let t0 = Instant::now();
        while out.len() < n {
            match self.c.recv_wait(Duration::from_millis(20)) {
                Some((b, _)) => out.push(b),
                None => {
                    if t0.elapsed() > BACKSTOP {
                        self.failed = Some(format!("step {}: expected {} datagram(s), got {}", self.step, n, out.len()));
                        break;
                    }
                }
            }
        }
        out
    }
    /// sends the datagram of the current step (no waiting)
    fn send_step(&mut self) {
        let s = self.step;
        let o = |a: &str, b: &str| (a.to_string(), b.to_string());
        let (to_listener, bytes): (bool, Vec<u8>) = match (self.script, s) {
            (Script::D2, 0) | (Script::D1, 0) | (Script::Da, 0) => (true, rc::request(false, self.name.as_bytes(), &[])),
            (Script::Da, _) => (false, rc::error(0, "client gives up")),
            (Script::Dw, 0) => (true, rc::request(false, self.name.as_bytes(), &[o("blksize", "8"), o("windowsize", "2")])),
            (Script::U2, 0) | (Script::U1, 0) => (true, rc::request(true, self.name.as_bytes(), &[])),
            (Script::Ub, 0) => (true, rc::request(true, self.name.as_bytes(), &[o("blksize", "1024")])),
            (Script::D2, k) | (Script::D1, k) => (false, rc::ack(k as u16)),
            (Script::Dw, 1) => (false, rc::ack(0)),
            (Script::Dw, 2) => (false, rc::ack(2)),
            (Script::Dw, _) => (false, rc::ack(3)),
            (Script::U2, k) | (Script::U1, k) => {
                let a = (k - 1) * 512;
                let b = (a + 512).min(self.body.len());
                (false, rc::data(k as u16, &self.body[a..b]))
            }
            (Script::Ub, k) => {
                let a = (k - 1) * 1024;
                let b = (a + 1024).min(self.body.len());
                (false, rc::data(k as u16, &self.body[a..b]))
            }
        };
        if to_listener {
            self.c.to_server(&bytes);
        } else {
            self.c.to_peer(&bytes);
        }
        self.last_sent = bytes;
    }
    /// number of replies the step's datagram elicits from a correct server
    fn replies_expected(&self) -> usize {
        let last = self.step + 1 == self.script.steps();
        match self.script {
            Script::D2 | Script::D1 | Script::Da => if last { 0 } else { 1 },
            Script::Dw => match self.step { 0 => 1, 1 => 2, 2 => 1, _ => 0 },
            _ => 1,
        }
    }
    /// awaits and checks the replies of the current step, then advances
    fn finish_step(&mut self) {
        let n = self.replies_expected();
        let replies = self.expect(n);
        let s = self.step;
        let mut bad: Option<String> = None;
        for (i, b) in replies.iter().enumerate() {
            let p = rc::decode(b);
            let ok = match (self.script, s, &p) {
                (Script::D2, _, Ok(RPacket::Data { block, data })) | (Script::D1, _, Ok(RPacket::Data { block, data })) | (Script::Da, _, Ok(RPacket::Data { block, data })) => {
                    self.got.extend_from_slice(data);
                    *block as usize == s + 1
                }
                (Script::Dw, 0, Ok(RPacket::Oack(_))) => true,
                (Script::Dw, 1, Ok(RPacket::Data { block, data })) => {
                    self.got.extend_from_slice(data);
                    *block as usize == i + 1
                }
                (Script::Dw, 2, Ok(RPacket::Data { block, data })) => {
                    self.got.extend_from_slice(data);
                    *block == 3
                }
                (Script::U2, k, Ok(RPacket::Ack(a))) | (Script::U1, k, Ok(RPacket::Ack(a))) => *a as usize == k,
                (Script::Ub, 0, Ok(RPacket::Oack(_))) => true,
                (Script::Ub, k, Ok(RPacket::Ack(a))) => *a as usize == k,
                _ => false,
            };
            if !ok {
                bad = Some(format!("step {s}: unexpected reply {}", rc::describe(b)));
            }
        }
        if self.failed.is_none() {
            self.failed = bad;
        }
        self.step += 1;
        if self.step == self.script.steps() {
            self.done = true;
        }
    }
    fn abort(&mut self) {
        // only a transfer that has been opened and not completed can still have an open port
        if !self.done && self.c.peer.is_some() {
            self.c.to_peer(&rc::error(0, "abort"));
        }
    }
}

#[derive(Clone, Debug)]
struct Intruder {
    kind: usize,   // 0 ACK, 1 DATA, 2 ERROR, 3 OACK
    to_transfer: bool,
    position: usize,
    /// the intruder sits on ANOTHER loopback address (127.0.0.2) with the SAME port number as the victim's client
    twin: bool,
}

fn intruder_bytes(kind: usize) -> Vec<u8> {
    match kind {
        0 => rc::ack(1),
        1 => rc::data(1, b"INTRUDER-DATA"),
        2 => rc::error(0, "intruder"),
        3 => rc::oack(&[("blksize", "8")]),
        4 => rc::data(1, &vec![0x49u8; 600]),  // a full-size-plus DATA block (larger than the default request buffer)
        5 => rc::data(7, &vec![0x49u8; 2000]),
        6 => vec![0, 4, 1],                     // truncated ACK
        7 => vec![0, 3],                        // truncated DATA
        _ => rc::request(false, b"__no_such_file__", &[]), // a REQUEST that is refused (ERROR 1): no transfer of its own either
    }
}
const INTRUDER_KINDS: usize = 9;
fn intruder_expects_error(kind: usize) -> bool {
    kind < 6 || kind == 8
}

struct RunResult {
    viol: Vec<(String, String)>,
    summary: String,
}

/// order: sequence of client indices (one entry per step); overlapped: send adjacent steps of different clients back to back
fn run_one(srv: &Srv, cfg: &SrvCfg, scripts: &[Script], same_file: bool, order: &[usize], intr: Option<&Intruder>, overlapped: bool) -> RunResult {
    let mut viol: Vec<(String, String)> = vec![];
    // plant files
    let mut cls: Vec<Cl> = vec![];
    for (i, s) in scripts.iter().enumerate() {
        let variant = if same_file && !s.is_upload() { 0 } else { i };
        let (name, body) = file_for(*s, variant);
        if s.is_upload() {
            let _ = std::fs::remove_file(format!("{}/{}", srv.recv_dir, name));
        } else {
            let p = format!("{}/{}", srv.send_dir, name);
            if std::fs::metadata(&p).map(|m| m.len() as usize != body.len()).unwrap_or(true) {
                let _ = std::fs::write(&p, &body);
            }
        }
        let cl = Client::new(srv.addr);
        cls.push(Cl { script: *s, c: cl, name, body, step: 0, got: vec![], failed: None, done: false, last_sent: vec![], first_pos: None, last_pos: 0 });
    }
    let mut intruder_sock: Option<Client> = None;
    let mut intruder_reply: Option<Vec<u8>> = None;
    let mut intruder_sent_to_listen = false;
    let do_intruder = |cls: &Vec<Cl>, intruder_sock: &mut Option<Client>, intruder_reply: &mut Option<Vec<u8>>, sent_to_listen: &mut bool, it: &Intruder| {
        let victim_peer: Option<SocketAddr> = cls[0].c.peer;
        // never send to a transfer port that may already have been closed: ephemeral ports are reused system-wide and the
        // datagram would land in some other socket (of a parallel shard) — seen as cross-talk once in ~10^5 executions
        if it.to_transfer && (cls[0].done || victim_peer.is_none()) && victim_peer != Some(srv.addr) {
            return;
        }
        let mut ic = if it.twin {
            let local: SocketAddr = format!("127.0.0.2:{}", cls[0].c.local_port()).parse().unwrap();
            match Client::bound(srv.addr, local) {
                Some(c) => c,
                None => return, // address/port not available here: the case is skipped, never judged
            }
        } else {
            Client::new(srv.addr)
        };
        let target = if it.to_transfer { victim_peer.unwrap_or(srv.addr) } else { srv.addr };
        let _ = ic.sock.send_to(&intruder_bytes(it.kind), target);
        if target == srv.addr {
            *sent_to_listen = true;
            // the listen loop is sequential: its ERROR reply must arrive (malformed datagrams need not be answered)
            let t0 = Instant::now();
            while intruder_expects_error(it.kind) && t0.elapsed() < BACKSTOP {
                if let Some((b, _)) = ic.recv_wait(Duration::from_millis(20)) {
                    *intruder_reply = Some(b);
                    break;
                }
            }
        }
        *intruder_sock = Some(ic);
    };
    let mut pos = 0usize;
    let mut i = 0usize;
    while i < order.len() {
        if let Some(it) = intr {
            if it.position == pos {
                do_intruder(&cls, &mut intruder_sock, &mut intruder_reply, &mut intruder_sent_to_listen, it);
            }
        }
        let a = order[i];
        if overlapped && i + 1 < order.len() && order[i + 1] != a {
            // both datagrams are on their way before either reply is awaited
            let b = order[i + 1];
            for (x, ps) in [(a, pos), (b, pos + 1)] {
                if cls[x].first_pos.is_none() {
                    cls[x].first_pos = Some(ps);
                }
                cls[x].last_pos = ps;
            }
            cls[a].send_step();
            cls[b].send_step();
            cls[a].finish_step();
            cls[b].finish_step();
            i += 2;
            pos += 2;
        } else {
            if cls[a].first_pos.is_none() {
                cls[a].first_pos = Some(pos);
            }
            cls[a].last_pos = pos;
            cls[a].send_step();
            cls[a].finish_step();
            i += 1;
            pos += 1;
        }
        if cls.iter().any(|c| c.failed.is_some()) {
            break;
        }
    }
    if let Some(it) = intr {
        if it.position >= pos && cls.iter().all(|c| c.failed.is_none()) {
            do_intruder(&cls, &mut intruder_sock, &mut intruder_reply, &mut intruder_sent_to_listen, it);
        }
    }
    let any_failed = cls.iter().any(|c| c.failed.is_some());
    // late duplicates: once its transfer is over an endpoint owns no transfer any more; a repeated copy of its last
    // datagram reaching the listening port must be answered with an ERROR (and must not hurt the server)
    let mut late_viol: Vec<(String, String)> = vec![];
    let mut transfer_sources: Vec<usize> = cls.iter().map(|c| c.c.sources.len()).collect();
    if !any_failed && intr.is_none() {
        quiesce();
        for (i, c) in cls.iter_mut().enumerate() {
            let b = c.last_sent.clone();
            c.c.to_server(&b);
            let t0 = Instant::now();
            let mut reply = None;
            while t0.elapsed() < BACKSTOP {
                if let Some((r, _)) = c.c.recv_wait(Duration::from_millis(20)) {
                    reply = Some(r);
                    break;
                }
            }
            match reply.as_ref().map(|r| rc::decode(r)) {
                Some(Ok(RPacket::Error { .. })) => {}
                _ => late_viol.push(("late-duplicate-not-refused".into(), format!("client {i} ({}): a late copy of its last datagram {} sent to the listening port after its transfer had ended was answered with {} instead of an ERROR", c.script.name(), rc::describe(&b), reply.as_ref().map(|r| rc::describe(r)).unwrap_or("nothing".into())))),
            }
        }
    }
    // the same endpoint again: client 0 runs its script a second time from the SAME socket (same address and port);
    // the server must treat it as a new transfer of its own
    if !any_failed && intr.is_none() && late_viol.is_empty() {
        let c0 = &mut cls[0];
        c0.c.reset_for_reuse();
        c0.step = 0;
        c0.done = false;
        c0.got.clear();
        if c0.script.is_upload() {
            let _ = std::fs::remove_file(format!("{}/{}", srv.recv_dir, c0.name));
        }
        while !c0.done && c0.failed.is_none() {
            c0.send_step();
            c0.finish_step();
        }
        if let Some(f) = c0.failed.take() {
            late_viol.push(("endpoint-reuse-failed".into(), format!("client 0 ({}) repeated its transfer from the same socket after the first one had ended: {f}", c0.script.name())));
            c0.abort();
        }
        quiesce();
        transfer_sources[0] = cls[0].c.sources.len();
    }
    if any_failed {
        for c in cls.iter_mut() {
            c.abort();
        }
    }
    if !quiesce() {
        viol.push(("not-quiescent".into(), "transfer threads still alive 3 s after all scripts ended".into()));
    }
    // oracle
    viol.extend(late_viol);
    let listen_port = srv.addr.port();
    let mut ports: Vec<(u16, usize, usize)> = vec![];
    for (i, c) in cls.iter_mut().enumerate() {
        if let Some(f) = &c.failed {
            viol.push(("script-failed".into(), format!("client {i} ({}): {f}", c.script.name())));
            continue;
        }
        if c.script.is_upload() {
            let stored = std::fs::read(format!("{}/{}", srv.recv_dir, c.name)).ok();
            if stored.as_deref() != Some(&c.body[..]) {
                viol.push(("upload-content".into(), format!("client {i} ({}): stored file has {:?} bytes, payload {}", c.script.name(), stored.map(|s| s.len()), c.body.len())));
            }
        } else if c.script == Script::Da {
            // aborted by its own client: only the first block was fetched
            if c.got[..] != c.body[..512] {
                viol.push(("download-content".into(), format!("client {i} (Da): the first block differs from its file")));
            }
        } else if c.got != c.body {
            viol.push(("download-content".into(), format!("client {i} ({}): received {} bytes that differ from its {}-byte file", c.script.name(), c.got.len(), c.body.len())));
        }
        while let Some((b, _)) = c.c.try_recv() {
            viol.push(("extra-datagram".into(), format!("client {i} ({}): unexpected extra datagram {}", c.script.name(), rc::describe(&b))));
        }
        let srcs: std::collections::BTreeSet<u16> = c.c.sources.iter().take(transfer_sources[i]).map(|s| s.port()).collect();
        if cfg.single {
            if srcs.iter().any(|p| *p != listen_port) {
                viol.push(("single-port-source".into(), format!("client {i}: datagrams came from ports {:?}, listening port is {listen_port}", srcs)));
            }
        } else {
            if srcs.len() != 1 || srcs.contains(&listen_port) {
                viol.push(("multi-port-source".into(), format!("client {i}: datagrams came from ports {:?} (expected one ephemeral port, not {listen_port})", srcs)));
            }
            ports.extend(srcs.iter().map(|p| (*p, c.first_pos.unwrap_or(0), c.last_pos)));
        }
    }
    if !cfg.single {
        // transfers that are open at the same time are served from different ports (a port may be re-used later)
        for x in 0..ports.len() {
            for y in x + 1..ports.len() {
                let (pa, fa, la) = ports[x];
                let (pb, fb, lb) = ports[y];
                if pa == pb && fa <= lb && fb <= la {
                    viol.push(("multi-port-shared".into(), format!("two transfers open at the same time were served from the same port {pa}")));
                }
            }
        }
    }
    if let Some(it) = intr {
        if intruder_sent_to_listen && intruder_expects_error(it.kind) {
            match intruder_reply.as_ref().map(|b| rc::decode(b)) {
                Some(Ok(RPacket::Error { .. })) => {}
                other => {
                    let shown = match other {
                        None => "nothing".to_string(),
                        Some(_) => intruder_reply.as_ref().map(|b| rc::describe(b)).unwrap_or_default(),
                    };
                    viol.push(("intruder-not-refused".into(), format!("intruder {} to the listening port was answered with {} instead of an ERROR", rc::describe(&intruder_bytes(it.kind)), shown)));
                }
            }
        }
        if let Some(ic) = intruder_sock.as_mut() {
            let mut n = 0;
            while let Some((b, _)) = ic.try_recv() {
                n += 1;
                if matches!(rc::decode(&b), Ok(RPacket::Data { .. })) {
                    viol.push(("intruder-leak".into(), format!("the intruder received {}", rc::describe(&b))));
                }
            }
            if n > 0 {
                viol.push(("intruder-extra".into(), format!("the intruder received {n} further datagrams")));
            }
        }
    }
    for c in &cls {
        if c.script.is_upload() {
            let _ = std::fs::remove_file(format!("{}/{}", srv.recv_dir, c.name));
        }
    }
    RunResult { summary: format!("{}", viol.len()), viol }
}

fn interleavings(counts: &[usize]) -> Vec<Vec<usize>> {
    fn rec(left: &mut Vec<usize>, cur: &mut Vec<usize>, out: &mut Vec<Vec<usize>>) {
        if left.iter().all(|x| *x == 0) {
            out.push(cur.clone());
            return;
        }
        for i in 0..left.len() {
            if left[i] > 0 {
                left[i] -= 1;
                cur.push(i);
                rec(left, cur, out);
                cur.pop();
                left[i] += 1;
            }
        }
    }
    let mut out = vec![];
    rec(&mut counts.to_vec(), &mut vec![], &mut out);
    out
}

pub fn cell(spec: &Value) -> Value {
    let cfg = SrvCfg::from_json(&spec["srv"]);
    let mut c = Counters::default();
    let srv = match server_for(&cfg) {
        Ok(s) => s,
        Err(e) => return json!({"machinery_error": format!("server start: {e}")}),
    };
    if spec["blocking"].as_bool().unwrap_or(false) {
        return blocking_cell(spec, &cfg, &srv);
    }
    if let Some(n) = spec["many"].as_u64() {
        return many_cell(spec, &cfg, n as usize);
    }
    let scripts: Vec<Script> = spec["scripts"].as_array().unwrap().iter().map(|s| Script::from(s.as_str().unwrap())).collect();
    let same_file = spec["same_file"].as_bool().unwrap_or(false);
    let intr_mode = spec["intruder"].as_str().unwrap_or("none"); // none | all
    let overlapped = spec["overlapped"].as_bool().unwrap_or(false);
    let orders = interleavings(&scripts.iter().map(|s| s.steps()).collect::<Vec<_>>());
    let total_steps: usize = scripts.iter().map(|s| s.steps()).sum();
    let mut outcomes: std::collections::BTreeSet<u64> = Default::default();
    let budget = Budget::new();
    'cell: for (oi, order) in orders.iter().enumerate() {
        let mut intrs: Vec<Option<Intruder>> = vec![None];
        if intr_mode == "all" {
            intrs.clear();
            for kind in 0..INTRUDER_KINDS {
                for to_transfer in [false, true] {
                    for position in 0..=total_steps {
                        intrs.push(Some(Intruder { kind, to_transfer, position, twin: false }));
                    }
                }
            }
            if cfg.single && !srv.addr.is_ipv6() {
                // same port number, other address: routing must use the whole endpoint
                for kind in 0..6 {
                    for position in 0..=total_steps {
                        intrs.push(Some(Intruder { kind, to_transfer: false, position, twin: true }));
                    }
                }
            }
        }
        for it in &intrs {
            if budget.over(&mut c) {
                break 'cell;
            }
            let r = run_one(&srv, &cfg, &scripts, same_file, order, it.as_ref(), overlapped);
            c.executions += 1;
            c.states += 1;
            c.transitions += total_steps as u64 + it.is_some() as u64;
            c.nontrivial += 1;
            outcomes.insert(fnv64(format!("{:?}{}", order, r.summary).as_bytes()));
            if c.samples.is_empty() && oi == orders.len() / 2 {
                c.samples.push(json!({"srv": cfg.brief(), "scripts": scripts.iter().map(|s| s.name()).collect::<Vec<_>>(), "interleaving": order, "intruder": it.as_ref().map(|i| format!("{} to {} at position {}", rc::describe(&intruder_bytes(i.kind)), if i.to_transfer { "victim's transfer port" } else if i.twin { "listening port, from 127.0.0.2 with the victim's port number" } else { "listening port" }, i.position)), "overlapped": overlapped}));
            }
            for (clause, what) in r.viol {
                c.violations.push(Violation {
                    property: "C12".into(),
                    clause,
                    facts: facts(&[("single", json!(cfg.single))]),
                    what: format!("[{}] scripts {:?}{} interleaving {:?} intruder {:?}: {}", cfg.brief(), scripts.iter().map(|s| s.name()).collect::<Vec<_>>(), if same_file { " (same file)" } else { "" }, order, it, what),
                    replay: json!({"engine": "e2_c12", "srv": cfg.to_json(), "scripts": scripts.iter().map(|s| s.name()).collect::<Vec<_>>(), "same_file": same_file, "order": order, "overlapped": overlapped,
                        "intruder": it.as_ref().map(|i| json!({"kind": i.kind, "to_transfer": i.to_transfer, "position": i.position, "twin": i.twin}))}),
                    weight: order.len() as u64 * 10 + it.is_some() as u64,
                });
            }
            if c.violations.len() > 300 {
                c.trim_violations(3);
            }
        }
    }
    if !quiesce() {
        c.machinery_errors.push("server not quiescent at the end of a C12 cell".into());
    }
    for o in outcomes.iter().take(64) {
        c.trace_hashes.insert(*o);
    }
    c.add_extra("distinct_traces", outcomes.len() as u64);
    c.trim_violations(3);
    c.to_json()
}

/// One transfer is held open while N OTHER endpoints (distinct loopback addresses) each complete a one-block download on the
/// same server instance; then the held transfer continues. Whatever the server keeps per endpoint, a live transfer must
/// survive any number of other clients coming and going.
fn many_cell(spec: &Value, cfg: &SrvCfg, n: usize) -> Value {
    let mut c = Counters::default();
    let srv = match server_fresh(cfg) {
        Ok(s) => s,
        Err(e) => return json!({"machinery_error": format!("server start: {e}")}),
    };
    let vbody = content(1000, 881);
    let _ = std::fs::write(format!("{}/many_v", srv.send_dir), &vbody);
    let _ = std::fs::write(format!("{}/many_s", srv.send_dir), b"s");
    let mut viol: Vec<(String, String)> = vec![];
    let mut v = Client::new(srv.addr);
    v.unguarded = true;
    // a long interval so that the held transfer does not run out of retries while the others are served
    v.to_server(&rc::request(false, b"many_v", &[("timeout".to_string(), "30".to_string())]));
    let mut got: Vec<u8> = vec![];
    let mut ok = matches!(v.recv_wait(BACKSTOP).map(|(b, _)| rc::decode(&b)), Some(Ok(RPacket::Oack(_))));
    if ok {
        v.to_peer(&rc::ack(0));
        match v.recv_wait(BACKSTOP).map(|(b, _)| rc::decode(&b)) {
            Some(Ok(RPacket::Data { block: 1, data })) => got.extend_from_slice(&data),
            _ => ok = false,
        }
    }
    if !ok {
        return json!({"machinery_error": "many-endpoints cell: the victim's download did not start"});
    }
    let mut served = 0usize;
    let mut buf = vec![0u8; 600];
    let req = rc::request(false, b"many_s", &[]);
    for i in 0..n {
        // distinct endpoints: 127.(1 + i / 60000).x.y with an OS-chosen port
        let local = format!("127.{}.{}.{}:0", 1 + i / 60000, (i / 250) % 240, 1 + i % 250);
        let Ok(s) = std::net::UdpSocket::bind(&local) else { continue };
        let _ = s.set_read_timeout(Some(Duration::from_millis(1500)));
        let _ = s.send_to(&req, srv.addr);
        if let Ok((k, from)) = s.recv_from(&mut buf) {
            if let Ok(RPacket::Data { block: 1, .. }) = rc::decode(&buf[..k]) {
                let _ = s.send_to(&rc::ack(1), from);
                served += 1;
            }
        }
    }
    c.transitions += 3 * n as u64;
    // the held transfer goes on
    v.to_peer(&rc::ack(1));
    let t0 = Instant::now();
    let mut done = false;
    while t0.elapsed() < BACKSTOP {
        match v.recv_wait(Duration::from_millis(50)).map(|(b, _)| rc::decode(&b)) {
            Some(Ok(RPacket::Data { block: 2, data })) => {
                got.extend_from_slice(&data);
                v.to_peer(&rc::ack(2));
                done = true;
                break;
            }
            Some(Ok(RPacket::Data { block: 1, .. })) => {} // a retransmission that was already on its way
            Some(other) => {
                viol.push(("held-transfer-broken".into(), format!("after {served} other endpoints had completed a download, the held transfer's ACK(1) was answered with {:?}", other.map(|p| format!("{:?}", p).chars().take(60).collect::<String>()))));
                break;
            }
            None => {}
        }
    }
    if viol.is_empty() && (!done || got != vbody) {
        viol.push(("held-transfer-broken".into(), format!("after {served} other endpoints had completed a download, the held transfer did not continue (completed={done}, {} of {} bytes)", got.len(), vbody.len())));
    }
    if served * 10 < n * 9 {
        c.machinery_errors.push(format!("many-endpoints cell: only {served} of {n} endpoints could be served"));
    }
    c.executions = 1;
    c.states = 1;
    c.nontrivial = 1;
    c.add_extra("other_endpoints_served_while_a_transfer_was_held", served as u64);
    c.trace_hashes.insert(fnv64(format!("many{n}{}", cfg.single).as_bytes()));
    c.samples.push(json!({"srv": cfg.brief(), "family": "many endpoints", "other_endpoints": n, "served": served}));
    for (clause, what) in viol {
        c.violations.push(Violation { property: "C12".into(), clause, facts: facts(&[("single", json!(cfg.single))]), what: format!("[{}] {}", cfg.brief(), what), replay: json!({"engine": "e2_c12", "spec": spec}), weight: 60 });
    }
    if !quiesce() {
        c.machinery_errors.push("server not quiescent at the end of the many-endpoints cell".into());
    }
    c.to_json()
}

/// A request whose file operation BLOCKS (a named pipe without a writer in the served directory) must stall only itself:
/// at every position of a victim's 2-block download another endpoint asks for the pipe; the victim's transfer and a new
/// request by a third endpoint must go on as if nothing had happened. Afterwards the pipe is released and the blocked
/// transfer is brought to its end.
fn blocking_cell(spec: &Value, cfg: &SrvCfg, srv: &Srv) -> Value {
    use std::os::unix::ffi::OsStrExt;
    let mut c = Counters::default();
    let fifo_name = format!("pipe_{}", std::process::id());
    let fifo_path = format!("{}/{}", srv.send_dir, fifo_name);
    let _ = std::fs::remove_file(&fifo_path);
    let cpath = std::ffi::CString::new(std::path::Path::new(&fifo_path).as_os_str().as_bytes()).unwrap();
    if unsafe { libc::mkfifo(cpath.as_ptr(), 0o644) } != 0 {
        return json!({"machinery_error": "mkfifo failed"});
    }
    let vbody = content(1000, 771);
    let wbody = content(100, 772);
    let _ = std::fs::write(format!("{}/blk_v", srv.send_dir), &vbody);
    let _ = std::fs::write(format!("{}/blk_w", srv.send_dir), &wbody);
    let wait = Duration::from_millis(1500);
    for position in 0..=3usize {
        let mut viol: Vec<(String, String)> = vec![];
        let mut v = Client::new(srv.addr);
        v.unguarded = true;
        let mut intr = Client::new(srv.addr);
        intr.unguarded = true;
        let mut got: Vec<u8> = vec![];
        let mut v_failed: Option<String> = None;
        let mut w_result: Option<String> = None;
        for step in 0..=3usize {
            if step == position {
                intr.to_server(&rc::request(false, fifo_name.as_bytes(), &[]));
                // a third endpoint's new request right after it
                let mut w = Client::new(srv.addr);
                w.unguarded = true;
                w.to_server(&rc::request(false, b"blk_w", &[]));
                match w.recv_wait(wait).map(|(b, _)| rc::decode(&b)) {
                    Some(Ok(RPacket::Data { block: 1, data })) if data == wbody => {
                        w.to_peer(&rc::ack(1));
                    }
                    other => w_result = Some(format!("{:?}", other.map(|r| r.map(|p| format!("{:?}", p).chars().take(60).collect::<String>())))),
                }
            }
            if v_failed.is_some() {
                continue;
            }
            match step {
                0 => v.to_server(&rc::request(false, b"blk_v", &[])),
                1 | 2 => {
                    match v.recv_wait(wait).map(|(b, _)| rc::decode(&b)) {
                        Some(Ok(RPacket::Data { block, data })) if block as usize == step => {
                            got.extend_from_slice(&data);
                            v.to_peer(&rc::ack(block));
                        }
                        other => v_failed = Some(format!("waiting for DATA({step}): got {:?}", other.map(|r| r.is_ok()))),
                    }
                }
                _ => {}
            }
        }
        c.executions += 1;
        c.states += 1;
        c.transitions += 6;
        c.nontrivial += 1;
        if v_failed.is_some() || got != vbody {
            viol.push(("stalled-by-blocking-request".into(), format!("a 2-block download stalled or was corrupted ({:?}, {} of {} bytes) when another endpoint requested a named pipe at position {position}", v_failed, got.len(), vbody.len())));
        }
        if let Some(wr) = w_result {
            viol.push(("listener-stalled-by-blocking-request".into(), format!("a new request by a third endpoint right after the request for a named pipe (position {position}) was not served: {wr}")));
        }
        // release the pipe: a writer that opens and closes it makes the blocked open() return and the read see end of file
        let t0 = Instant::now();
        let mut released = false;
        while t0.elapsed() < Duration::from_secs(2) && !released {
            let fd = unsafe { libc::open(cpath.as_ptr(), libc::O_WRONLY | libc::O_NONBLOCK) };
            if fd >= 0 {
                unsafe { libc::close(fd) };
                released = true;
            } else {
                std::thread::sleep(Duration::from_millis(2));
            }
        }
        // the formerly blocked transfer now serves an empty file: acknowledge it so that it ends
        if let Some((b, _)) = intr.recv_wait(wait) {
            if let Ok(RPacket::Data { block, .. }) = rc::decode(&b) {
                intr.to_peer(&rc::ack(block));
            }
        }
        let t1 = Instant::now();
        while workers_alive() && t1.elapsed() < Duration::from_secs(3) {
            // (a released reader that found no writer yet re-blocks: open and close once more)
            let fd = unsafe { libc::open(cpath.as_ptr(), libc::O_WRONLY | libc::O_NONBLOCK) };
            if fd >= 0 {
                unsafe { libc::close(fd) };
            }
            if let Some((b, _)) = intr.recv_wait(Duration::from_millis(20)) {
                if let Ok(RPacket::Data { block, .. }) = rc::decode(&b) {
                    intr.to_peer(&rc::ack(block));
                }
            }
        }
        c.trace_hashes.insert(fnv64(format!("blocking{position}{}", cfg.single).as_bytes()));
        for (clause, what) in viol {
            c.violations.push(Violation { property: "C12".into(), clause, facts: facts(&[("single", json!(cfg.single))]), what: format!("[{}] {}", cfg.brief(), what), replay: json!({"engine": "e2_c12", "spec": spec}), weight: 30 + position as u64 });
        }
    }
    let _ = std::fs::remove_file(&fifo_path);
    if !quiesce() {
        c.machinery_errors.push("server not quiescent at the end of the blocking-request cell".into());
    }
    c.samples.push(json!({"srv": cfg.brief(), "family": "request for a named pipe (blocking open) at every position of another client's download"}));
    c.to_json()
}

pub fn check(tier: Tier) -> Outcome {
    let four = [Script::D2, Script::Dw, Script::U2, Script::Ub];
    let mut cells = vec![];
    for single in [false, true] {
        let mut s = SrvCfg::basic();
        s.single = single;
        s.overwrite = true;
        for i in 0..4 {
            for j in i..4 {
                let pair = json!([four[i].name(), four[j].name()]);
                let both_dl = !four[i].is_upload() && !four[j].is_upload();
                let sames: &[bool] = if both_dl && i == j { &[false, true] } else { &[false] };
                for &same in sames {
                    cells.push(json!({"srv": s.to_json(), "scripts": pair, "same_file": same, "intruder": "none"}));
                    // intruder at every position: quick on the mixed pairs, thorough on all
                    if tier == Tier::Thorough || (i != j && (i + j) % 2 == 1) {
                        cells.push(json!({"srv": s.to_json(), "scripts": pair, "same_file": same, "intruder": "all"}));
                    }
                    // overlapped pairs: adjacent steps of different clients are both on their way before either reply is awaited
                    if tier == Tier::Thorough || i != j {
                        cells.push(json!({"srv": s.to_json(), "scripts": pair, "same_file": same, "intruder": "none", "overlapped": true}));
                    }
                }
            }
        }
        cells.push(json!({"srv": s.to_json(), "blocking": true}));
        // one transfer held open while many other endpoints come and go (thorough: more than 2^16 of them)
        cells.insert(0, json!({"srv": s.to_json(), "many": if tier == Tier::Quick { 1500 } else { 70000 }}));
        // a client that aborts its own download with an ERROR, interleaved with the other scripts
        for other in ["Ub", "Dw", "U2"] {
            cells.push(json!({"srv": s.to_json(), "scripts": ["Da", other], "same_file": false, "intruder": "none"}));
        }
        // the listener bound to :: (dual-stack), the clients on IPv4: endpoints appear as ::ffff:127.0.0.1:port
        {
            let mut d = s.clone();
            d.dual = true;
            cells.push(json!({"srv": d.to_json(), "scripts": ["D2", "U2"], "same_file": false, "intruder": "none"}));
            cells.push(json!({"srv": d.to_json(), "scripts": ["Dw", "Ub"], "same_file": false, "intruder": "none"}));
        }
        // K = 3 with the short scripts
        let three = [Script::D1, Script::U1, Script::D2];
        let triples: Vec<[Script; 3]> = if tier == Tier::Quick { vec![[Script::D1, Script::U1, Script::D1]] } else { vec![[three[0], three[1], three[0]], [three[0], three[0], three[0]], [three[1], three[1], three[0]], [three[0], three[1], three[2]]] };
        for t in triples {
            cells.push(json!({"srv": s.to_json(), "scripts": [t[0].name(), t[1].name(), t[2].name()], "same_file": false, "intruder": "none"}));
            if tier == Tier::Thorough {
                cells.push(json!({"srv": s.to_json(), "scripts": [t[0].name(), t[1].name(), t[2].name()], "same_file": true, "intruder": "none", "overlapped": true}));
            }
        }
    }
    let n = cells.len();
    let res = run_cells("c12", cells, &crate::pool_opts(tier));
    let mut out = Outcome::new("C12", "model_checking");
    out.absorb(res, n);
    out.rule = "client scripts (each step = one datagram and its awaited replies): D2 = 2-block lock-step download, Dw = download with blksize 8 / windowsize 2, U2 = 2-block upload, Ub = upload with blksize 1024, D1/U1 = 1-block transfers, Da = a 2-block download that its own client aborts with an ERROR after the first block (paired with Ub, Dw, U2). All interleavings of the steps of K = 2 scripts for all 10 unordered pairs (same-file and different-file downloads) and of K = 3 short scripts, in single-port and multi-port mode (two pairs also with the listener on the dual-stack address :: and IPv4 clients); plus one intruder datagram (ACK, DATA, ERROR, OACK, oversize and truncated datagrams, a refused request, from a foreign socket, to the listening port or to the victim's transfer port; in single-port mode also from another loopback address that uses the victim's own port number) inserted at every position of every interleaving; thorough additionally re-issues adjacent steps of different clients as overlapped pairs; plus one transfer held open while 1500 (thorough 70000) other endpoints on distinct loopback addresses each complete a download on the same server instance; plus a request whose file operation blocks (named pipe) at every position of another client's download, with a third endpoint's new request right behind it. Oracle: per-client byte identity, source-port discipline (single-port: only the listening port; multi-port: one distinct ephemeral port per transfer), ERROR to the intruder, no leak, no extra datagrams. Every execution is non-trivial (completes >= 2 transfers). states = executions, transitions = datagrams sent.".into();
    out.assumptions = vec!["the server's internal thread schedule is the OS's; the driver keeps one datagram in flight (two for overlapped pairs)".into()];
    out
}

pub fn replay(v: &Value) -> String {
    let cfg = SrvCfg::from_json(&v["srv"]);
    let srv = match server_for(&cfg) {
        Ok(s) => s,
        Err(e) => return format!("server start failed: {e}"),
    };
    let scripts: Vec<Script> = v["scripts"].as_array().unwrap().iter().map(|s| Script::from(s.as_str().unwrap())).collect();
    let order: Vec<usize> = v["order"].as_array().unwrap().iter().map(|x| x.as_u64().unwrap() as usize).collect();
    let it = v["intruder"].as_object().map(|o| Intruder { kind: o["kind"].as_u64().unwrap() as usize, to_transfer: o["to_transfer"].as_bool().unwrap(), position: o["position"].as_u64().unwrap() as usize, twin: o["twin"].as_bool().unwrap_or(false) });
    let r = run_one(&srv, &cfg, &scripts, v["same_file"].as_bool().unwrap_or(false), &order, it.as_ref(), v["overlapped"].as_bool().unwrap_or(false));
    format!("violations: {:?}", r.viol)
}
