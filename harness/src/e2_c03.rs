//! E2 / C03 directory confinement: every filename over a path-token alphabet up to a length bound, RRQ and WRQ,
//! against the real Server; unique-content files, before/after tree snapshots, lexical reference resolver.

use crate::loopback::*;
use crate::refcodec as rc;
use crate::refcodec::RPacket;
use crate::util::*;
use crate::{Outcome, Tier};
use serde_json::{json, Value};

fn tokens(srv: &Srv) -> Vec<String> {
    vec![
        "/".into(),
        "\\".into(),
        "..".into(),
        ".".into(),
        "a.txt".into(),
        "sub".into(),
        "b.txt".into(),
        "new.txt".into(),
        "outside.txt".into(),
        "srv-evil".into(),
        srv.root.clone(),
        srv.send_dir.clone(),
        "".into(),
        "...".into(),
        "..\\".into(),
        "%2e%2e".into(),
        "up".into(),
        "secret.txt".into(),
    ]
}
const NTOK: usize = 18;

fn plant(srv: &Srv) -> Tree {
    // every file's content is its own absolute path, so any served bytes identify their origin
    let root = &srv.root;
    let files = ["outside.txt", "srv/a.txt", "srv/sub/b.txt", "srv-evil/secret.txt", "srv-evil/a.txt", "up/old.txt", "a.txt", "sub/b.txt"];
    let mut t = Tree::new();
    for d in ["/srv/", "/srv/sub/", "/srv-evil/", "/up/", "/sub/", "/cwd/"] {
        t.insert(d.to_string(), vec![]);
    }
    for f in files {
        t.insert(format!("/{f}"), format!("{root}/{f}").into_bytes());
    }
    restore(root, &t);
    t
}

/// Lexical reference resolver written from the statement: where would this name resolve relative to `dir`?
/// Returns Some(absolute normalised path) or None if it escapes above the filesystem root.
fn resolve(dir: &str, name: &str) -> Option<String> {
    let n = name.trim_start_matches(|c| c == '/' || c == '\\').replace('\\', "/");
    let mut comps: Vec<&str> = dir.split('/').filter(|c| !c.is_empty()).collect();
    for c in n.split('/') {
        match c {
            "" | "." => {}
            ".." => {
                comps.pop()?;
            }
            other => comps.push(other),
        }
    }
    Some(format!("/{}", comps.join("/")))
}

fn inside(dir: &str, path: &str) -> bool {
    path == dir || path.starts_with(&format!("{dir}/"))
}

pub fn cell(spec: &Value) -> Value {
    let cfg = SrvCfg::from_json(&spec["srv"]);
    let mut c = Counters::default();
    let srv = match server_for(&cfg) {
        Ok(s) => s,
        Err(e) => return json!({"machinery_error": format!("server start: {e}")}),
    };
    let toks = tokens(&srv);
    let initial = plant(&srv);
    // the server's working directory lies inside the observed tree (a file written relative to the cwd is seen)
    let _ = std::env::set_current_dir(format!("{}/cwd", srv.root));
    if spec["family"] == "abort" {
        // downloads that FAIL (the peer answers the first DATA with an ERROR, or falls silent after requesting timeout=1):
        // a read request must not change the tree whichever way it ends
        let names = ["a.txt", "sub/b.txt", "/a.txt", "\\a.txt", "./a.txt", "sub\\b.txt"];
        for name in names {
            for silent in [false, true] {
                if silent && !spec["with_silence"].as_bool().unwrap_or(false) {
                    continue;
                }
                c.executions += 1;
                c.states += 1;
                let mut cl = Client::new(srv.addr);
                let opts: Vec<(String, String)> = if silent { vec![("timeout".into(), "1".into())] } else { vec![] };
                cl.to_server(&rc::request(false, name.as_bytes(), &opts));
                let first = reply_or_quiet(&srv, &mut cl);
                c.transitions += 2;
                let got_data = matches!(first.as_ref().map(|(b, _)| rc::decode(b)), Some(Ok(RPacket::Data { .. })) | Some(Ok(RPacket::Oack(_))));
                if got_data {
                    c.nontrivial += 1;
                    if !silent {
                        cl.to_peer(&rc::error(0, "abort"));
                    } else {
                        // say nothing: the server gives up after its retries (6 x 1 s)
                        let t0 = std::time::Instant::now();
                        while workers_alive() && t0.elapsed() < std::time::Duration::from_secs(12) {
                            std::thread::sleep(std::time::Duration::from_millis(20));
                        }
                    }
                }
                quiesce();
                let after = snapshot(&srv.root);
                let diff = tree_diff(&initial, &after);
                if !diff.is_empty() {
                    c.violations.push(Violation {
                        property: "C03".into(),
                        clause: "fs-effect-outside".into(),
                        facts: facts(&[("kind", json!("RRQ"))]),
                        what: format!("[{}] RRQ {:?} that was {} changed the tree: {:?} (a read request must change nothing, however it ends)", cfg.brief(), name, if silent { "abandoned by the peer (server gave up after its retries)" } else { "aborted by a peer ERROR after the first DATA" }, diff),
                        replay: json!({"engine": "e2_c03", "srv": cfg.to_json(), "name": name, "write": false, "abort": true}),
                        weight: 50 + name.len() as u64,
                    });
                    restore(&srv.root, &initial);
                }
            }
        }
        c.trace_hashes.insert(fnv64(b"abort-family"));
        if !quiesce() {
            c.machinery_errors.push("server did not become quiescent at the end of a C03 cell".into());
        }
        return c.to_json();
    }
    let prefix: Vec<usize> = spec["prefix"].as_array().unwrap().iter().map(|x| x.as_u64().unwrap() as usize).collect();
    let more = spec["more"].as_u64().unwrap() as usize;
    let allowed: Vec<usize> = match spec["allowed"].as_array() {
        Some(a) => a.iter().map(|x| x.as_u64().unwrap() as usize).collect(),
        None => (0..NTOK).collect(),
    };
    // second family: names = up to `segs` separator-carrying segments followed by one leaf (reaches e.g. sub/../../x
    // with few tokens)
    let long_family = spec["family"] == "long";
    let seg_family = spec["family"] == "segments" || long_family;
    let segments: Vec<String> = vec!["/".into(), "\\".into(), "../".into(), "..\\".into(), "./".into(), "sub/".into(), "sub\\".into()];
    let leaves: Vec<String> = vec!["a.txt".into(), "b.txt".into(), "outside.txt".into(), "new.txt".into(), "secret.txt".into(), "..".into(), "srv-evil/secret.txt".into(), "up/old.txt".into(), "newdir/x.txt".into(), "old.txt".into()];
    let mut seg_names: Vec<String> = vec![];
    if long_family {
        // third family: names up to and beyond the classic 512-byte request and the NAME_MAX / PATH_MAX limits: every
        // combination of a long harmless prefix with a base name that stays inside or escapes
        let root_out = format!("{}/outside.txt", srv.root);
        let bases: Vec<String> = vec!["a.txt".into(), "new.txt".into(), "../outside.txt".into(), "sub/../../outside.txt".into(), root_out, "..\\outside.txt".into(), "../srv-evil/secret.txt".into(), "../up/long-new.txt".into()];
        let mut prefixes: Vec<String> = vec![String::new()];
        for n in [100usize, 254, 255, 256, 490, 2000, 5000] {
            prefixes.push(format!("{}/", "A".repeat(n)));
        }
        for n in [50usize, 250, 1000, 2100] {
            prefixes.push("./".repeat(n));
            prefixes.push("/".repeat(n));
            prefixes.push("\\".repeat(n));
            prefixes.push(".\\".repeat(n));
        }
        for n in [10usize, 80, 700] {
            prefixes.push("sub/../".repeat(n));
            prefixes.push("../".repeat(n));
            prefixes.push("..\\".repeat(n));
        }
        for p in &prefixes {
            for b in &bases {
                seg_names.push(format!("{p}{b}"));
            }
        }
        for n in [255usize, 256, 480, 500, 1000, 4095, 4096, 4097, 20000] {
            seg_names.push("B".repeat(n));
            seg_names.push(format!("../{}", "B".repeat(n)));
            seg_names.push(format!("{}/../../outside.txt", "B".repeat(n)));
        }
        for odd in ["a.txt\n", "a\tb", " a.txt", "a.txt ", "\u{ff0e}\u{ff0e}/outside.txt", "\u{2025}/outside.txt", "..%2foutside.txt", "%2e%2e/outside.txt", "..;/outside.txt"] {
            seg_names.push(odd.to_string());
        }
    } else if seg_family {
        let first = spec["first_seg"].as_u64().unwrap() as usize;
        let segs = spec["segs"].as_u64().unwrap() as usize;
        // all segment strings of length 1..=segs starting with `first`
        let mut frontier: Vec<String> = vec![segments[first].clone()];
        let mut all: Vec<String> = frontier.clone();
        for _ in 1..segs {
            let mut next = vec![];
            for f in &frontier {
                for s2 in &segments {
                    next.push(format!("{f}{s2}"));
                }
            }
            all.extend(next.iter().cloned());
            frontier = next;
        }
        for a in &all {
            for l in &leaves {
                seg_names.push(format!("{a}{l}"));
            }
        }
    }
    let mut stack: Vec<Vec<usize>> = if seg_family { vec![] } else { vec![prefix.clone()] };
    let mut seg_iter = seg_names.into_iter();
    let mut outcomes: std::collections::BTreeSet<u64> = Default::default();
    let mut sampled = false;
    let budget = Budget::new();
    loop {
        let (idx, name): (Vec<usize>, String) = if seg_family {
            match seg_iter.next() {
                Some(n) => (vec![0; 3], n),
                None => break,
            }
        } else {
            match stack.pop() {
                Some(i) => {
                    let n: String = i.iter().map(|k| toks[*k].as_str()).collect();
                    (i, n)
                }
                None => break,
            }
        };
        if budget.over(&mut c) {
            break;
        }
        if !seg_family && idx.len() < prefix.len() + more {
            for &t in allowed.iter().rev() {
                let mut n = idx.clone();
                n.push(t);
                stack.push(n);
            }
        }
        for write in [false, true] {
            c.executions += 1;
            c.states += 1;
            let mut viol: Vec<(String, String)> = vec![];
            let dir = if write { &srv.recv_dir } else { &srv.send_dir };
            let resolved = resolve(dir, &name);
            let escapes = match &resolved {
                None => true,
                Some(p) => !inside(dir, p),
            };
            let outcome: String;
            // RFC 2347: a request datagram is at most 512 octets; a longer one is not a request the server has to decode,
            // so silence is accepted for it (it must still have no effect and serve nothing)
            let oversize = name.len() + 9 > 512;
            if !write {
                let r = download(&srv, name.as_bytes(), &[]);
                c.transitions += 1 + r.block_lens.len() as u64;
                outcome = format!("R:{}:{}", r.error.as_ref().map(|e| e.0 as i32).unwrap_or(-1), r.completed);
                if !r.data.is_empty() || r.completed {
                    // (a) bytes served must be the content of a file inside the send directory
                    let s = String::from_utf8_lossy(&r.data).to_string();
                    let ok = inside(&srv.send_dir, &s) && s != srv.send_dir && initial.contains_key(&s[srv.root.len()..]);
                    if !ok {
                        viol.push(("read-outside".into(), format!("RRQ {:?} was served {} bytes that are not a file of the send directory: {:?}", name, r.data.len(), &s[..s.len().min(120)])));
                    }
                    c.nontrivial += 1;
                }
                if escapes && r.error.is_none() && !(oversize && r.first == "none") {
                    viol.push(("escape-not-refused".into(), format!("RRQ {:?} resolves to {:?}, outside {}, but was not answered with an ERROR (first reply {})", name, resolved, dir, r.first)));
                }
            } else {
                let payload = format!("UPLOAD:{name}").into_bytes();
                let r = upload(&srv, name.as_bytes(), &[], &payload);
                c.transitions += 1 + r.acks.len() as u64;
                outcome = format!("W:{}:{}", r.error.as_ref().map(|e| e.0 as i32).unwrap_or(-1), r.completed);
                if r.completed {
                    c.nontrivial += 1;
                }
                if escapes && r.error.is_none() && !(oversize && r.first == "none") {
                    viol.push(("escape-not-refused".into(), format!("WRQ {:?} resolves to {:?}, outside {}, but was not answered with an ERROR (first reply {})", name, resolved, dir, r.first)));
                }
            }
            outcomes.insert(fnv64(outcome.as_bytes()));
            // (b) file-system effect
            let after = snapshot(&srv.root);
            let diff = tree_diff(&initial, &after);
            if !diff.is_empty() {
                let rel_recv = &srv.recv_dir[srv.root.len()..];
                let legal = write && diff.len() == 1 && {
                    let d = &diff[0];
                    let path = d.split_once(' ').map(|x| x.1).unwrap_or("");
                    (d.starts_with("created ") || d.starts_with("modified ")) && path.starts_with(&format!("{rel_recv}/")) && !path.ends_with('/')
                } || (write && diff.iter().all(|d| {
                    // directories created INSIDE the receive directory on the way to the target are not forbidden
                    let path = d.split_once(' ').map(|x| x.1).unwrap_or("");
                    d.starts_with("created ") && path.starts_with(&format!("{rel_recv}/"))
                }) && diff.iter().filter(|d| !d.ends_with('/')).count() <= 1);
                if !legal {
                    viol.push(("fs-effect-outside".into(), format!("{} {:?} changed the tree: {:?} (only a single create/modify inside {} is allowed{})", if write { "WRQ" } else { "RRQ" }, name, diff, srv.recv_dir, if write { "" } else { ", and nothing at all for a read" })));
                } else if escapes {
                    viol.push(("escape-had-effect".into(), format!("WRQ {:?} resolves outside {} but had a file-system effect {:?}", name, dir, diff)));
                }
                restore(&srv.root, &initial);
            }
            if !sampled && idx.len() == prefix.len() + more && c.executions > 8 {
                sampled = true;
                c.samples.push(json!({"srv": cfg.brief(), "request": if write { "WRQ" } else { "RRQ" }, "filename": name, "resolves_to": resolved, "outcome": outcome, "tree_diff": diff}));
            }
            for (clause, what) in viol {
                c.violations.push(Violation {
                    property: "C03".into(),
                    clause,
                    facts: facts(&[("kind", json!(if write { "WRQ" } else { "RRQ" }))]),
                    what: format!("[{}] {}", cfg.brief(), what),
                    replay: json!({"engine": "e2_c03", "srv": cfg.to_json(), "name": name, "write": write}),
                    weight: idx.len() as u64 * 100 + name.len() as u64,
                });
            }
            if c.violations.len() > 500 {
                c.trim_violations(3);
            }
        }
    }
    if !quiesce() {
        c.machinery_errors.push("server did not become quiescent at the end of a C03 cell".into());
    }
    for o in outcomes {
        c.trace_hashes.insert(o);
    }
    c.trim_violations(3);
    c.to_json()
}

pub fn check(tier: Tier) -> Outcome {
    let depth = if tier == Tier::Quick { 3 } else { 4 };
    let mut cells = vec![];
    let mut cfgs = vec![];
    for distinct in [false, true] {
        for overwrite in [false, true] {
            let mut s = SrvCfg::basic();
            s.distinct = distinct;
            s.overwrite = overwrite;
            cfgs.push(s);
        }
    }
    {
        // the send directory is not named on the command line (-d + -rd): it must be the -d directory, not the receive directory
        let mut s = SrvCfg::basic();
        s.distinct = true;
        s.rd_only = true;
        s.overwrite = true;
        cfgs.push(s);
    }
    if tier == Tier::Thorough {
        let mut s = SrvCfg::basic();
        s.single = true;
        s.overwrite = true;
        cfgs.push(s);
    }
    for s in &cfgs {
        cells.push(json!({"srv": s.to_json(), "prefix": [], "more": 1}));
        for i in 0..NTOK {
            for j in 0..NTOK {
                cells.push(json!({"srv": s.to_json(), "prefix": [i, j], "more": depth - 2}));
            }
        }
        // segment family: <= 3 (thorough 5) separator-carrying segments + a leaf
        for first_seg in 0..7 {
            cells.push(json!({"srv": s.to_json(), "prefix": [], "more": 0, "family": "segments", "first_seg": first_seg, "segs": if tier == Tier::Quick { 3 } else { 4 }}));
        }
        cells.push(json!({"srv": s.to_json(), "prefix": [], "more": 0, "family": "long"}));
        cells.push(json!({"srv": s.to_json(), "prefix": [], "more": 0, "family": "abort", "with_silence": false}));
        if tier == Tier::Thorough {
            // depth 5/6 on the separator/dot sub-alphabet
            let sub = [0usize, 1, 2, 3, 4, 5, 14];
            for &i in &sub {
                for &j in &sub {
                    cells.push(json!({"srv": s.to_json(), "prefix": [i, j], "more": 4, "allowed": sub}));
                }
            }
        }
    }
    {
        // one download abandoned by its peer (server gives up after six 1-second timeouts; ~6 s of wall clock)
        let mut s = SrvCfg::basic();
        s.distinct = true;
        cells.insert(0, json!({"srv": s.to_json(), "prefix": [], "more": 0, "family": "abort", "with_silence": true}));
    }
    let n = cells.len();
    let res = run_cells("c03", cells, &crate::pool_opts(tier));
    let mut out = Outcome::new("C03", "model_checking");
    out.absorb(res, n);
    out.rule = format!("every filename that is a concatenation of <= {depth} tokens over an {NTOK}-token path alphabet ('/', '\\', '..', '.', existing file, subdirectory, file in it, new name, a file one level up, a sibling directory sharing the served directory's name as prefix, absolute sandbox and served paths, empty, '...', '..\\', '%2e%2e', 'up', 'secret.txt'){}, plus every name made of <= 3 (thorough 4) separator-carrying segments ('/', '\\', '../', '..\\', './', 'sub/', 'sub\\') followed by one of 10 leaves (one with a missing parent directory, one that exists only in the receive directory), plus long names (harmless prefixes of 100..5000 characters and of 50..2100 repeated './', '/', '\\', 'sub/../', '../' segments in front of 8 inside/escaping base names; single components of 255..20000 characters; a few odd spellings); each as RRQ and as WRQ, against the real Server on loopback in {} configurations (shared/distinct dirs x overwrite, distinct dirs with the send directory by fallback{}); plus downloads of 6 valid names that FAIL (peer ERROR after the first DATA; peer silence until the server gives up): the tree must be unchanged; each accepted request is carried to its end. Oracle: served bytes identify a file inside the send directory (every file's content is its own path); tree snapshot before/after shows at most one create/modify inside the receive directory; names a lexical reference resolver puts outside are answered with ERROR and have no effect. non-trivial = requests that transferred data. states = requests, transitions = datagram exchanges.", if tier == Tier::Thorough { ", plus <= 6 tokens over the separator/dot sub-alphabet" } else { "" }, cfgs.len(), if tier == Tier::Thorough { ", plus single-port" } else { "" });
    out.assumptions = vec!["Linux path semantics; no symlinks planted inside the served directories".into(), "one server per configuration per shard process is reused across requests (the tree is restored after every request)".into()];
    out
}

pub fn replay(v: &Value) -> String {
    let cfg = SrvCfg::from_json(&v["srv"]);
    let srv = match server_for(&cfg) {
        Ok(s) => s,
        Err(e) => return format!("server start failed: {e}"),
    };
    let initial = plant(&srv);
    let name = v["name"].as_str().unwrap_or("");
    let s = if v["write"].as_bool().unwrap_or(false) {
        let r = upload(&srv, name.as_bytes(), &[], b"UPLOAD");
        format!("WRQ {:?}: first={} error={:?} completed={}", name, r.first, r.error, r.completed)
    } else {
        let r = download(&srv, name.as_bytes(), &[]);
        format!("RRQ {:?}: first={} error={:?} completed={} data={:?}", name, r.first, r.error, r.completed, String::from_utf8_lossy(&r.data))
    };
    let d = tree_diff(&initial, &snapshot(&srv.root));
    format!("{s}\n tree diff: {:?}\n resolves (send dir): {:?}", d, resolve(&srv.send_dir, name))
}
