//! E2 transfers over real sockets for C01 (downloads) and C02 (uploads): the real Server incl. `impl Socket for UdpSocket`
//! / `ServerSocket`, both port modes, fault-free and with client-side faults (duplicate / stale ACKs, duplicated /
//! reordered DATA).

use crate::loopback::*;
use crate::util::*;
use serde_json::{json, Value};

fn body(len: usize) -> Vec<u8> {
    content(len, 900 + len as u64)
}

pub fn cell(spec: &Value) -> Value {
    let cfg = SrvCfg::from_json(&spec["srv"]);
    let mut c = Counters::default();
    let srv = match if cfg.single { server_fresh(&cfg) } else { server_for(&cfg) } {
        Ok(s) => s,
        Err(e) => return json!({"machinery_error": format!("server start: {e}")}),
    };
    let upload_dir = spec["upload"].as_bool().unwrap();
    let prop = if upload_dir { "C02" } else { "C01" };
    if spec["stale"].as_bool().unwrap_or(false) {
        return stale_cell(spec, &cfg, &srv, upload_dir, prop);
    }
    let blk = spec["blk"].as_u64().unwrap() as usize;
    let ws = spec["ws"].as_u64().unwrap() as usize;
    let lens: Vec<usize> = spec["lens"].as_array().unwrap().iter().map(|x| x.as_u64().unwrap() as usize).collect();
    let plain = spec["plain"].as_bool().unwrap_or(false); // no options at all (512 / lock-step)
    let opts: Vec<(String, String)> = if plain { vec![] } else { vec![("blksize".into(), blk.to_string()), ("windowsize".into(), ws.to_string())] };
    let eff_blk = if plain { 512 } else { blk };
    let mut seq = 0;
    let _ = std::fs::write(format!("{}/x_small", srv.send_dir), b"s");
    if cfg.single && !plain {
        // state carried over from an earlier request: a transfer with a LARGER block size ran on this server before
        let big = body(3000);
        let _ = std::fs::write(format!("{}/x_prime", srv.send_dir), &big);
        let prime = vec![("blksize".to_string(), (eff_blk.max(512) * 2).min(65464).to_string())];
        let r = download(&srv, b"x_prime", &prime);
        if !r.completed || r.data != big {
            c.violations.push(Violation { property: prop.into(), clause: "e2-download-content".into(), facts: facts(&[("single", json!(cfg.single))]), what: format!("[{}] priming download with {:?} failed", cfg.brief(), prime), replay: json!({"engine": "e2_xfer", "spec": spec}), weight: 400 });
        }
    }
    let budget = Budget::new();
    'cell: for len in lens {
        for mode in 0..4u8 {
            if budget.over(&mut c) {
                break 'cell;
            }
            seq += 1;
            let data = body(len);
            let mut viol: Vec<(String, String)> = vec![];
            let desc = format!("{} len={len} blk={eff_blk} ws={} mode={}", if upload_dir { "upload" } else { "download" }, if plain { 1 } else { ws }, match (upload_dir, mode) { (_, 0) => "fault-free", (_, 3) => "another client's small download in the middle", (false, 1) => "duplicate ACKs", (false, _) => "stale ACK before each ACK", (true, 1) => "every DATA twice", (true, _) => "window reversed" });
            // (the fault-free transfer of the plain cells runs under a name of non-ASCII characters: the name on disk is the
            // name in the request, byte for byte)
            let fancy = plain && mode == 0;
            if !upload_dir {
                let name = if fancy { format!("x_gr\u{fc}\u{df}e-\u{65e5}\u{672c}_{len}") } else { format!("x_{len}") };
                let p = format!("{}/{}", srv.send_dir, name);
                if std::fs::metadata(&p).map(|m| m.len() as usize != len).unwrap_or(true) {
                    std::fs::write(&p, &data).unwrap();
                }
                let r = download_mode(&srv, name.as_bytes(), &opts, None, mode);
                c.transitions += r.block_lens.len() as u64 + 1;
                // the transfer must follow the ACKNOWLEDGED block size (a request above 65464 is answered with less)
                let eff_blk = r.oack.as_ref().and_then(|o| opt_val(o, "blksize")).map(|v| v as usize).unwrap_or(512);
                if !r.completed || r.data != data {
                    viol.push(("e2-download-content".into(), format!("{desc}: completed={} received {} bytes, file has {}; anomalies {:?}", r.completed, r.data.len(), len, &r.anomalies[..r.anomalies.len().min(3)])));
                } else {
                    let n = r.block_lens.len();
                    if r.block_lens.iter().take(n - 1).any(|l| *l != eff_blk) || r.block_lens[n - 1] >= eff_blk || n != len / eff_blk + 1 {
                        viol.push(("e2-download-blocks".into(), format!("{desc}: block lengths {:?}", &r.block_lens[..n.min(8)])));
                    }
                }
                if !r.anomalies.is_empty() && viol.is_empty() {
                    viol.push(("e2-download-shape".into(), format!("{desc}: {:?}", &r.anomalies[..r.anomalies.len().min(3)])));
                }
            } else {
                let name = if fancy { format!("u_gr\u{fc}\u{df}e-\u{65e5}\u{672c}_{}_{}", std::process::id(), seq) } else { format!("u_{}_{}", std::process::id(), seq) };
                let r = if mode == 0 { upload(&srv, name.as_bytes(), &opts, &data) } else { upload_faulty(&srv, name.as_bytes(), &opts, &data, mode) };
                c.transitions += r.acks.len() as u64 + 1;
                let p = format!("{}/{}", srv.recv_dir, name);
                let stored = std::fs::read(&p).ok();
                let _ = std::fs::remove_file(&p);
                if !r.completed || stored.as_deref() != Some(&data[..]) {
                    viol.push(("e2-upload-content".into(), format!("{desc}: completed={} error={:?} stored {:?} bytes, payload {}; anomalies {:?}; ACKs seen {:?}", r.completed, r.error, stored.map(|s| s.len()), len, &r.anomalies[..r.anomalies.len().min(3)], &r.acks[..r.acks.len().min(40)])));
                }
            }
            c.executions += 1;
            c.states += 1;
            c.nontrivial += 1;
            c.trace_hashes.insert(fnv64(desc.as_bytes()));
            if c.samples.is_empty() && mode == 1 {
                c.samples.push(json!({"srv": cfg.brief(), "e2": desc}));
            }
            for (clause, what) in viol {
                c.violations.push(Violation { property: prop.into(), clause, facts: facts(&[("single", json!(cfg.single))]), what: format!("[{}] {}", cfg.brief(), what), replay: json!({"engine": "e2_xfer", "spec": spec}), weight: 500 + len as u64 });
            }
        }
    }
    if !quiesce() {
        c.machinery_errors.push("server not quiescent at the end of an E2 transfer cell".into());
    }
    c.trim_violations(3);
    c.to_json()
}

/// History: a request is accepted for this endpoint and then abandoned by the client (it never continues); the SAME
/// endpoint then issues a second request for another file and carries it to its end. The second transfer must be
/// exactly its own file (datagrams are demultiplexed to the transfer accepted last for that endpoint); the abandoned one
/// is left to die of its retries (timeout=1: six seconds of wall clock in single-port mode; in multi-port mode it is ended
/// by an ERROR to its own port).
fn stale_cell(spec: &Value, cfg: &SrvCfg, srv: &Srv, upload_dir: bool, prop: &str) -> Value {
    use crate::refcodec as rc;
    let mut c = Counters::default();
    let mut viol: Vec<(String, String)> = vec![];
    let t1 = vec![("timeout".to_string(), "1".to_string())];
    let mut cl = Client::new(srv.addr);
    let data = body(1300);
    let stale_name = format!("stale_{}", std::process::id());
    let desc;
    if upload_dir {
        cl.to_server(&rc::request(true, stale_name.as_bytes(), &t1));
        let first = cl.recv_wait(BACKSTOP);
        let stale_peer = first.as_ref().map(|(_, from)| *from);
        cl.reset_for_reuse();
        let name = format!("fresh_{}", std::process::id());
        desc = format!("upload of 1300 bytes as {name:?} from an endpoint whose earlier WRQ for {stale_name:?} (answered with {}) was abandoned", first.as_ref().map(|(b, _)| rc::describe(b)).unwrap_or("nothing".into()));
        let r = upload_on(&mut cl, srv, name.as_bytes(), &[], &data);
        c.transitions += r.acks.len() as u64 + 2;
        let p = format!("{}/{}", srv.recv_dir, name);
        let stored = std::fs::read(&p).ok();
        if !r.completed || stored.as_deref() != Some(&data[..]) {
            viol.push(("e2-upload-content".into(), format!("{desc}: completed={} error={:?} stored {:?} bytes, payload 1300 (the abandoned target holds {:?} bytes); ACKs seen {:?}; anomalies {:?}", r.completed, r.error, stored.map(|s| s.len()), std::fs::metadata(format!("{}/{}", srv.recv_dir, stale_name)).ok().map(|m| m.len()), &r.acks[..r.acks.len().min(10)], &r.anomalies[..r.anomalies.len().min(3)])));
        }
        let _ = std::fs::remove_file(&p);
        if let Some(sp) = stale_peer {
            if sp != srv.addr && workers_alive() {
                let _ = cl.sock.send_to(&rc::error(0, "abandoned"), sp);
            }
        }
    } else {
        let big = body(3000);
        let _ = std::fs::write(format!("{}/x_stale", srv.send_dir), &big);
        let _ = std::fs::write(format!("{}/x_fresh", srv.send_dir), &data);
        cl.to_server(&rc::request(false, b"x_stale", &t1));
        let first = cl.recv_wait(BACKSTOP);
        let stale_peer = first.as_ref().map(|(_, from)| *from);
        // in multi-port mode the abandoned transfer is told to stop (its own port); in single-port mode it cannot be reached
        if let Some(sp) = stale_peer {
            if sp != srv.addr {
                let _ = cl.sock.send_to(&rc::error(0, "abandoned"), sp);
                quiesce();
            }
        }
        cl.reset_for_reuse();
        desc = format!("download of a 1300-byte file by an endpoint whose earlier RRQ (answered with {}) was abandoned", first.as_ref().map(|(b, _)| rc::describe(b)).unwrap_or("nothing".into()));
        let r = download_on(&mut cl, srv, b"x_fresh", &[], None, 0);
        c.transitions += r.block_lens.len() as u64 + 2;
        // retransmissions of the abandoned transfer may still reach this endpoint (single-port): they are not part of
        // the second transfer's content and a conformant client ignores them — judge content and completion only
        if !r.completed || r.data != data {
            viol.push(("e2-download-content".into(), format!("{desc}: completed={} error={:?} received {} bytes, file has 1300; anomalies {:?}", r.completed, r.error, r.data.len(), &r.anomalies[..r.anomalies.len().min(3)])));
        }
    }
    // let the abandoned transfer die (six 1-second timeouts at most)
    let t0 = std::time::Instant::now();
    while workers_alive() && t0.elapsed() < std::time::Duration::from_secs(12) {
        std::thread::sleep(std::time::Duration::from_millis(25));
    }
    let _ = std::fs::remove_file(format!("{}/{}", srv.recv_dir, stale_name));
    c.executions = 1;
    c.states = 1;
    c.nontrivial = 1;
    c.trace_hashes.insert(fnv64(desc.as_bytes()) ^ cfg.single as u64);
    for (clause, what) in viol {
        c.violations.push(Violation { property: prop.into(), clause, facts: facts(&[("single", json!(cfg.single)), ("history", json!("abandoned-request"))]), what: format!("[{}] {}", cfg.brief(), what), replay: json!({"engine": "e2_xfer", "spec": spec}), weight: 450 });
    }
    if !quiesce() {
        c.machinery_errors.push("server not quiescent at the end of the abandoned-request cell".into());
    }
    c.to_json()
}

/// transfers across the block-number wrap through the real Server (listener routing, both Socket impls): C15
pub fn wrap_cell(spec: &Value) -> Value {
    let cfg = SrvCfg::from_json(&spec["srv"]);
    let mut c = Counters::default();
    let srv = match if cfg.single { server_fresh(&cfg) } else { server_for(&cfg) } {
        Ok(s) => s,
        Err(e) => return json!({"machinery_error": format!("server start: {e}")}),
    };
    let upload_dir = spec["upload"].as_bool().unwrap();
    let ws = spec["ws"].as_u64().unwrap() as usize;
    let nblocks = spec["blocks"].as_u64().unwrap() as usize;
    let len = nblocks * 8 + 3;
    let data = body(len);
    let opts: Vec<(String, String)> = vec![("blksize".into(), "8".into()), ("windowsize".into(), ws.to_string())];
    let desc = format!("{} of {} blocks (blksize 8, windowsize {ws}) across the block-number wrap", if upload_dir { "upload" } else { "download" }, nblocks + 1);
    let mut viol: Vec<(String, String)> = vec![];
    if upload_dir {
        let name = format!("wrap_{}", std::process::id());
        let r = upload(&srv, name.as_bytes(), &opts, &data);
        let p = format!("{}/{}", srv.recv_dir, name);
        let stored = std::fs::read(&p).ok();
        let _ = std::fs::remove_file(&p);
        c.transitions += r.acks.len() as u64;
        if !r.completed || stored.as_deref() != Some(&data[..]) {
            viol.push(("e2-wrap-upload".into(), format!("{desc}: completed={} error={:?} stored {:?} of {} bytes; {:?}", r.completed, r.error, stored.map(|s| s.len()), len, &r.anomalies[..r.anomalies.len().min(3)])));
        }
    } else {
        let p = format!("{}/wrap_src_{}", srv.send_dir, nblocks);
        if std::fs::metadata(&p).map(|m| m.len() as usize != len).unwrap_or(true) {
            std::fs::write(&p, &data).unwrap();
        }
        let r = download(&srv, format!("wrap_src_{nblocks}").as_bytes(), &opts);
        c.transitions += r.block_lens.len() as u64;
        if !r.completed || r.data != data {
            viol.push(("e2-wrap-download".into(), format!("{desc}: completed={} error={:?} received {} of {} bytes; {:?}", r.completed, r.error, r.data.len(), len, &r.anomalies[..r.anomalies.len().min(3)])));
        }
    }
    c.executions = 1;
    c.states = 1;
    c.nontrivial = 1;
    c.trace_hashes.insert(fnv64(desc.as_bytes()) ^ cfg.single as u64);
    c.samples.push(json!({"srv": cfg.brief(), "real_server": desc}));
    for (clause, what) in viol {
        c.violations.push(Violation { property: "C15".into(), clause, facts: facts(&[("single", json!(cfg.single))]), what: format!("[{}] {}", cfg.brief(), what), replay: json!({"engine": "e2_wrap", "spec": spec}), weight: 900 });
    }
    if !quiesce() {
        c.machinery_errors.push("server not quiescent after a wrap transfer".into());
    }
    c.to_json()
}

pub fn wrap_cells(thorough: bool) -> Vec<Value> {
    let mut v = vec![];
    for single in [false, true] {
        let mut s = SrvCfg::basic();
        s.single = single;
        s.overwrite = true;
        for upload in [false, true] {
            let wss: Vec<usize> = if thorough { vec![1, 3, 32] } else { vec![32] };
            for ws in wss {
                v.push(json!({"srv": s.to_json(), "upload": upload, "ws": ws, "blocks": 65540}));
            }
            // exactly 65536 blocks: the last block carries wire number 0
            v.push(json!({"srv": s.to_json(), "upload": upload, "ws": 32, "blocks": 65535}));
        }
    }
    v
}

pub fn cells(upload: bool, thorough: bool) -> Vec<Value> {
    let mut v = vec![];
    for single in [false, true] {
        let mut s = SrvCfg::basic();
        s.single = single;
        s.overwrite = true;
        v.push(json!({"srv": s.to_json(), "upload": upload, "plain": true, "blk": 512, "ws": 1, "lens": [0, 1, 511, 512, 513, 1024, 1537]}));
        // (downloads: multi-port only — in single-port mode the abandoned download's retransmissions reach the same
        // endpoint and no client could tell them from the new transfer's blocks; that is TFTP, not a defect)
        if upload || !single {
            v.insert(0, json!({"srv": s.to_json(), "upload": upload, "stale": true}));
        }
        let blks: Vec<usize> = if thorough { vec![8, 9, 512, 1428, 65464, 65465, 65500, 70000] } else { vec![8, 1428, 65464, 65500] };
        for blk in blks {
            let wss: Vec<usize> = if thorough { vec![1, 2, 3, 4, 16] } else { vec![1, 3] };
            for ws in wss {
                // requests above the maximum are answered with 65464: lengths are laid out around that value
                let lb = blk.min(65464);
                let mut lens = vec![0, 1, lb - 1, lb, lb + 1, ws * lb - 1, ws * lb, ws * lb + 1, (ws + 1) * lb, 3 * ws * lb + 1];
                lens.sort();
                lens.dedup();
                // a window of large blocks must fit the SERVER's default socket receive buffer (~200 KB) on uploads and
                // ours on downloads, otherwise the kernel drops datagrams and the run depends on 5 s retransmission timers
                if lb * ws > 140_000 {
                    continue;
                }
                if blk >= 65464 {
                    lens.retain(|l| *l <= 4 * 65464 + 1);
                }
                v.push(json!({"srv": s.to_json(), "upload": upload, "blk": blk, "ws": ws, "lens": lens}));
            }
        }
    }
    v
}

pub fn replay(v: &Value) -> String {
    let r = cell(&v["spec"]);
    format!("{}", r["violations"])
}
