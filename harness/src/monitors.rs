//! Trace monitors (oracles) for E1, written from the property statements. They look only at the recorded
//! event trace (datagrams emitted / answers delivered / virtual time / file snapshots), never at worker state.

use crate::modea::{block_payload, RefRecv, Role, Trace, XCfg};
use crate::refcodec::RPacket;
use crate::sim::*;
use serde_json::{json, Map, Value};

#[derive(Clone, Debug)]
pub struct MViol {
    pub clause: String,
    /// properties this clause bears upon
    pub property_hint: Vec<&'static str>,
    pub what: String,
    pub facts: Map<String, Value>,
}

fn mv(clause: &str, props: &[&'static str], what: String, facts: &[(&str, Value)]) -> MViol {
    MViol { clause: clause.into(), property_hint: props.to_vec(), what, facts: crate::util::facts(facts) }
}

pub const MAX_TOLERATED_SILENCE: usize = 16;
pub const RETRY_BUDGET: usize = 6;

#[derive(Clone, Debug, Default)]
pub struct Summary {
    /// sender: the final block was acknowledged; receiver: the final block was received and acknowledged
    pub finished: bool,
    pub error_delivered: bool,
    pub max_consecutive_failures: usize,
    pub tolerated_abort_cause: bool,
}

pub fn check_all(tr: &Trace) -> Vec<MViol> {
    check_all_s(tr).0
}

pub fn check_all_s(tr: &Trace) -> (Vec<MViol>, Summary) {
    let (mut v, s) = match tr.cfg.role {
        Role::Sender => check_sender(tr),
        Role::Receiver => check_receiver(tr),
    };
    if tr.horizon_hit {
        v.push(mv("T5-no-termination", &["C07"], format!("worker still receiving after {} answers (horizon)", crate::modea::horizon(&tr.cfg)), &[]));
    }
    v.extend(check_multiplicity(tr));
    (v, s)
}

fn is_failure_answer(role: Role, a: &Answer, expect_next: u64) -> bool {
    // a receive attempt that makes no progress from the worker's point of view (timeout, stray, undecodable)
    match a {
        Answer::Timeout => true,
        Answer::Deliver { bytes, .. } => match decode(bytes) {
            None => true,
            Some(RPacket::Ack(_)) => role == Role::Receiver,
            Some(RPacket::Data { block, .. }) => role == Role::Sender || block != (expect_next % 65536) as u16,
            Some(RPacket::Error { .. }) => false,
            Some(_) => true,
        },
    }
}

pub fn check_sender(tr: &Trace) -> (Vec<MViol>, Summary) {
    let cfg: &XCfg = &tr.cfg;
    let content = &tr.content[..];
    let kfinal = cfg.kfinal();
    let t_ns = cfg.timeout_ns() as i64;
    let mut out: Vec<MViol> = vec![];
    let mut hi: u64 = 0;
    let mut acked: u64 = 0;
    let mut any_data = false;
    let mut waited_after_data = false;
    let mut ended: Option<&'static str> = None;
    let mut reported_after_end = false;
    let mut last_burst_t: Option<i64> = None;
    // current burst
    let mut burst: Vec<(u64, usize, i64)> = vec![];
    let mut hi_before_burst: u64 = 0;
    // facts about the previous answer
    let mut prev_raised_to: Option<u64> = None; // ACK raised A
    let mut prev_partial = false; // that ACK left already-sent blocks outstanding
    let mut prev_dup = false; // duplicate / stale ACK
    let mut prev_label = String::from("start");
    let mut consecutive_timeouts = 0usize;
    let mut consecutive_failures = 0usize;
    let mut max_consecutive_failures = 0usize;
    let mut tolerated_abort_cause = false; // future/bogus ACK or handshake trouble delivered
    let mut error_delivered = false;
    let mut seen_once: std::collections::BTreeSet<String> = Default::default();
    let mut push = |out: &mut Vec<MViol>, m: MViol| {
        if seen_once.insert(m.clause.clone()) {
            out.push(m);
        }
    };

    let close_burst = |out: &mut Vec<MViol>,
                       push: &mut dyn FnMut(&mut Vec<MViol>, MViol),
                       burst: &mut Vec<(u64, usize, i64)>,
                       hi_before: u64,
                       acked: u64,
                       prev_raised_to: Option<u64>,
                       prev_partial: bool,
                       prev_dup: bool,
                       prev_label: &str,
                       last_burst_t: &mut Option<i64>,
                       ended: Option<&'static str>| {
        if burst.is_empty() {
            if let Some(k) = prev_raised_to {
                if k < kfinal && ended.is_none() {
                    push(out, mv("W2-no-resume", &["C08"], format!("after ACK({k}) (file not finished) nothing was transmitted before the next receive"), &[]));
                }
            }
            return;
        }
        let t_first = burst[0].2;
        let has_old = burst.iter().any(|(k, _, _)| *k <= hi_before);
        if has_old {
            let elapsed_ok = last_burst_t.map(|t| t_first - t >= t_ns).unwrap_or(true);
            if !elapsed_ok && !prev_partial {
                let since = last_burst_t.map(|t| t_first - t).unwrap_or(0);
                let clause = if prev_dup { "W3-retransmit-on-dup-ack" } else { "W3-early-retransmit" };
                // in duplicate-packets mode an early retransmission also breaks "exactly N+1 times" (C16)
                let props: &[&'static str] = if cfg.repeat > 1 { &["C08", "C16"] } else { &["C08"] };
                push(
                    out,
                    mv(clause, props, format!("blocks {:?} retransmitted {} ns after the previous transmission (< timeout {} ns) after answer [{}]", burst.iter().map(|b| b.0).take(6).collect::<Vec<_>>(), since, t_ns, prev_label), &[("ws", json!(cfg.ws))]),
                );
            }
        }
        if let Some(k) = prev_raised_to {
            if k < kfinal && burst[0].0 != k + 1 {
                push(out, mv("W2-resume-position", &["C08"], format!("after ACK({k}) transmission resumed at block {} instead of {}", burst[0].0, k + 1), &[]));
            }
        }
        // blocks per window: a transmission of new blocks only, after a full-window acknowledgement (or at the start),
        // carries exactly the acknowledged number of blocks (or all that are left)
        if !has_old && !prev_partial && !prev_dup && ended.is_none() {
            let mut distinct: Vec<u64> = burst.iter().map(|b| b.0).collect();
            distinct.sort();
            distinct.dedup();
            let want = (cfg.ws as u64).min(kfinal.saturating_sub(acked));
            let fresh_start = prev_raised_to.map(|k| k == acked).unwrap_or(hi_before == 0);
            if fresh_start && want > 0 && (distinct.len() as u64) < want {
                push(out, mv("W6-window-not-filled", &["C09"], format!("after ACK({acked}) only {} new blocks were transmitted although a window of {} blocks was acknowledged and {} blocks are left", distinct.len(), cfg.ws, kfinal.saturating_sub(acked)), &[("ws", json!(cfg.ws))]));
            }
        }
        *last_burst_t = Some(burst.last().unwrap().2);
        burst.clear();
    };

    let mut last_answer_was_dup = false;
    for ev in &tr.events {
        match ev {
            Event::Send { bytes, t, .. } => {
                if let Some(why) = ended {
                    if !reported_after_end {
                        reported_after_end = true;
                        let clause = if why == "error" { "T3-send-after-error" } else { "T1-send-after-final-ack" };
                        // a sender that goes on after the final ACK has not "completed successfully" either (C04)
                        let props: &[&'static str] = if why == "error" { &["C07"] } else { &["C07", "C04"] };
                        push(&mut out, mv(clause, props, format!("datagram {} emitted after the transfer had ended ({why})", crate::refcodec::describe(bytes)), &[("handshake", json!(!any_data))]));
                    }
                }
                match decode(bytes) {
                    Some(RPacket::Data { block, data }) => {
                        if burst.is_empty() {
                            hi_before_burst = hi;
                        }
                        let k = abs_after(block, acked);
                        any_data = true;
                        if k > kfinal {
                            push(&mut out, mv("S2-beyond-final", &["C01", "C07"], format!("DATA block {k} (wire {block}, {} bytes) emitted but the final block is {kfinal}", data.len()), &[]));
                        } else if k == 0 {
                            push(&mut out, mv("S1-slice", &["C01"], format!("DATA with block number 0 emitted"), &[]));
                        } else {
                            let want = block_payload(cfg, content, k);
                            if data != want {
                                push(&mut out, mv("S1-slice", &["C01", "C15"], format!("DATA block {k} (wire {block}) carries {} bytes that are not file[{}..{}]", data.len(), (k - 1) as usize * cfg.blk, ((k - 1) as usize * cfg.blk + want.len())), &[]));
                            }
                        }
                        if k > hi {
                            if k != hi + 1 {
                                push(&mut out, mv("S1-numbering", &["C01", "C15"], format!("block {k} emitted right after highest block {hi} (numbering not consecutive)"), &[]));
                            }
                            hi = k;
                        }
                        if hi - acked > cfg.ws as u64 {
                            push(&mut out, mv("W1-window-exceeded", &["C08"], format!("{} blocks outstanding beyond the last acknowledged block {acked} (windowsize {})", hi - acked, cfg.ws), &[]));
                        }
                        burst.push((k, data.len(), *t));
                    }
                    _ => {}
                }
            }
            Event::Recv { answer, .. } => {
                close_burst(&mut out, &mut push, &mut burst, hi_before_burst, acked, prev_raised_to, prev_partial, prev_dup, &prev_label, &mut last_burst_t, ended);
                if any_data {
                    waited_after_data = true;
                }
                if let Some(why) = ended {
                    if !reported_after_end {
                        reported_after_end = true;
                        let clause = if why == "error" { "T3-recv-after-error" } else { "T1-recv-after-final-ack" };
                        let props: &[&'static str] = if why == "error" { &["C07"] } else { &["C07", "C04"] };
                        push(&mut out, mv(clause, props, format!("worker receives again after the transfer had ended ({why})"), &[("handshake", json!(!any_data))]));
                    }
                }
                prev_raised_to = None;
                prev_partial = false;
                prev_dup = false;
                last_answer_was_dup = false;
                prev_label = describe_answer(answer);
                let failure = is_failure_answer(Role::Sender, answer, 0);
                match answer {
                    Answer::Timeout => {
                        consecutive_timeouts += 1;
                        if consecutive_timeouts > MAX_TOLERATED_SILENCE {
                            push(&mut out, mv("T5-unbounded-retry", &["C07"], format!("worker still receiving after {consecutive_timeouts} consecutive timeouts"), &[]));
                        }
                        if !any_data {
                            tolerated_abort_cause = true; // silence during the handshake
                        }
                    }
                    Answer::Deliver { bytes, .. } => {
                        consecutive_timeouts = 0;
                        match decode(bytes) {
                            Some(RPacket::Ack(k)) => {
                                if !any_data {
                                    if k != 0 {
                                        tolerated_abort_cause = true;
                                    }
                                } else {
                                    let ka = abs_ack(k, acked, hi);
                                    if ka > acked && ka <= hi {
                                        acked = ka;
                                        prev_raised_to = Some(ka);
                                        prev_partial = ka < hi;
                                        if acked >= kfinal {
                                            ended = Some("final-acked");
                                        }
                                    } else if ka <= acked {
                                        prev_dup = true;
                                        last_answer_was_dup = true;
                                    } else {
                                        tolerated_abort_cause = true; // acknowledges a block not sent yet
                                    }
                                }
                            }
                            Some(RPacket::Error { .. }) => {
                                error_delivered = true;
                                if ended.is_none() {
                                    ended = Some("error");
                                }
                            }
                            _ => {
                                if !any_data {
                                    tolerated_abort_cause = true;
                                }
                            }
                        }
                    }
                }
                let _ = failure;
                if prev_raised_to.is_some() {
                    consecutive_failures = 0;
                } else if !matches!(answer, Answer::Deliver { bytes, .. } if matches!(decode(bytes), Some(RPacket::Error { .. }))) {
                    // anything that is neither progress nor an ERROR is a failed receive attempt for the retry budget
                    consecutive_failures += 1;
                }
                max_consecutive_failures = max_consecutive_failures.max(consecutive_failures);
            }
            Event::SendFailed { .. } => {
                // the socket refused a datagram: giving up is legitimate (nothing more is demanded afterwards)
                tolerated_abort_cause = true;
            }
            Event::Closed { .. } => {
                close_burst(&mut out, &mut push, &mut burst, hi_before_burst, acked, prev_raised_to, prev_partial, prev_dup, &prev_label, &mut last_burst_t, ended);
            }
        }
    }
    let finished = acked >= kfinal;
    if !finished && !tr.horizon_hit && !tr.stuck {
        // the worker gave up: was it entitled to?
        // a duplicate / stale ACK must never be the reason for ending, however many of them arrive (C08)
        if last_answer_was_dup && !error_delivered && !tolerated_abort_cause {
            // (in duplicate-packets mode a transfer that does not complete with a conformant peer also breaks C16)
            let props: &[&'static str] = if cfg.repeat > 1 { &["C08", "C04", "C16"] } else { &["C08", "C04"] };
            push(&mut out, mv("W3-abort-on-dup-ack", props, format!("transfer aborted{} right after a duplicate/stale acknowledgement [{}]", if tr.panicked { " by panic" } else { "" }, prev_label), &[("ws", json!(cfg.ws)), ("panic", json!(tr.panicked))]));
        } else if !error_delivered && !tolerated_abort_cause && any_data && max_consecutive_failures < RETRY_BUDGET {
            let props: &[&'static str] = if cfg.repeat > 1 { &["C04", "C16"] } else { &["C04"] };
            push(&mut out, mv("L1-gave-up-early", props, format!("sender ended{} before the final block was acknowledged although at most {} consecutive receive attempts failed (last answer [{}])", if tr.panicked { " by panic" } else { "" }, max_consecutive_failures, prev_label), &[("role", json!("sender")), ("panic", json!(tr.panicked))]));
        }
    }
    // a sender that has transmitted data and then waited for an answer twice or more must have taken a timestamp by then (the
    // hook exists to make exactly that timestamp virtual); one that stopped earlier (e.g. its first send was refused) need not
    if tr.now_calls == 0 && any_data && waited_after_data && tr.events.iter().filter(|e| matches!(e, Event::Recv { .. })).count() >= 2 {
        push(&mut out, mv("MACHINERY-hook-bypassed", &[], "the virtual clock was never consulted by a sending worker".into(), &[]));
    }
    (out, Summary { finished, error_delivered, max_consecutive_failures, tolerated_abort_cause })
}

pub fn check_receiver(tr: &Trace) -> (Vec<MViol>, Summary) {
    let cfg: &XCfg = &tr.cfg;
    let mut out: Vec<MViol> = vec![];
    let mut seen_once: std::collections::BTreeSet<String> = Default::default();
    let mut push = |out: &mut Vec<MViol>, m: MViol| {
        if seen_once.insert(m.clause.clone()) {
            out.push(m);
        }
    };
    let mut refr = RefRecv::new();
    let mut unacked: u64 = 0;
    let mut final_acked = false;
    let mut final_ack_bytes: Vec<u8> = vec![];
    let mut error_delivered = false;
    let mut reported_after_end = false;
    let mut consecutive_timeouts = 0usize;
    let mut consecutive_failures = 0usize;
    let mut max_consecutive_failures = 0usize;
    let snap_mode = if cfg.snapshot_tail { Snapshot::Tail } else { Snapshot::Full };
    let mut acked_hi: u64 = 0;
    let mut send_failed = false;
    let mut clean_since_ack = true;
    for ev in &tr.events {
        match ev {
            Event::Send { bytes, file, .. } => {
                if error_delivered && !reported_after_end {
                    reported_after_end = true;
                    push(&mut out, mv("T3-send-after-error", &["C07"], format!("datagram {} emitted after the peer's ERROR", crate::refcodec::describe(bytes)), &[]));
                }
                if final_acked && *bytes != final_ack_bytes && !reported_after_end {
                    reported_after_end = true;
                    push(&mut out, mv("T2-send-after-final-ack", &["C07"], format!("datagram {} emitted after the final block had been acknowledged", crate::refcodec::describe(bytes)), &[]));
                }
                if let Some(RPacket::Ack(k)) = decode(bytes) {
                    let last_in_seq = refr.next - 1;
                    let ka = abs_block(k, last_in_seq.saturating_sub(1));
                    if ka > last_in_seq {
                        push(&mut out, mv("U1-ack-not-in-sequence", &["C02"], format!("ACK({ka}) emitted but only blocks 1..{last_in_seq} have arrived in sequence"), &[]));
                    } else if ka >= 1 {
                        // U2: at this instant the file holds blocks 1..j for some j in ka..=last_in_seq, nothing else
                        let mut ok = false;
                        if let Some(f) = file {
                            for j in ka..=last_in_seq {
                                let want = snapshot_of_bytes(&refr.assembled[..refr.block_ends[j as usize]], snap_mode);
                                if want.as_ref() == Some(f) {
                                    ok = true;
                                    break;
                                }
                            }
                        }
                        if !ok {
                            push(&mut out, mv("U2-ack-before-stored", &["C02"], format!("at the emission of ACK({ka}) the file (len {:?}) does not hold exactly blocks 1..j for any j in {ka}..={last_in_seq} (expected len {})", file.map(|f| f.0), refr.block_ends[ka as usize]), &[]));
                        }
                        // blocks per window: with nothing but in-order blocks since the last acknowledgement, the next one is
                        // due exactly when the acknowledged window is full (or at the final block), not earlier
                        if clean_since_ack && ka > acked_hi && ka - acked_hi < cfg.ws as u64 && !(refr.done && ka == last_in_seq) {
                            push(&mut out, mv("W5-ack-before-window-full", &["C09"], format!("ACK({ka}) emitted after only {} consecutive in-order blocks (previous ACK {acked_hi}) although a window of {} blocks was acknowledged", ka - acked_hi, cfg.ws), &[("ws", json!(cfg.ws))]));
                        }
                        clean_since_ack = true;
                        if ka > acked_hi {
                            acked_hi = ka;
                        }
                        unacked = last_in_seq - acked_hi;
                        if refr.done && ka == last_in_seq {
                            final_acked = true;
                            final_ack_bytes = bytes.clone();
                        }
                    }
                }
            }
            Event::Recv { answer, .. } => {
                if final_acked && !reported_after_end {
                    reported_after_end = true;
                    push(&mut out, mv("T2-recv-after-final-ack", &["C07"], "worker receives again after acknowledging the final block".into(), &[]));
                }
                if error_delivered && !reported_after_end {
                    reported_after_end = true;
                    push(&mut out, mv("T3-recv-after-error", &["C07"], "worker receives again after the peer's ERROR".into(), &[]));
                }
                if unacked >= cfg.ws as u64 && !final_acked {
                    push(&mut out, mv("W4-ack-overdue", &["C08"], format!("{unacked} consecutive in-order blocks received without an acknowledgement (windowsize {})", cfg.ws), &[]));
                }
                if refr.done && !final_acked {
                    push(&mut out, mv("W4-final-not-acked", &["C08", "C07"], "the final (short) block was received but not acknowledged before the next receive".into(), &[]));
                }
                let failure = is_failure_answer(Role::Receiver, answer, refr.next);
                match answer {
                    Answer::Timeout => {
                        clean_since_ack = false;
                        consecutive_timeouts += 1;
                        if consecutive_timeouts > MAX_TOLERATED_SILENCE {
                            push(&mut out, mv("T5-unbounded-retry", &["C07"], format!("worker still receiving after {consecutive_timeouts} consecutive timeouts"), &[]));
                        }
                    }
                    Answer::Deliver { bytes, .. } => {
                        consecutive_timeouts = 0;
                        if let Some(RPacket::Error { .. }) = decode(bytes) {
                            error_delivered = true;
                        }
                        if refr.deliver(bytes, cfg.blk) {
                            unacked += 1;
                        } else {
                            clean_since_ack = false;
                        }
                    }
                }
                if failure {
                    consecutive_failures += 1;
                } else {
                    consecutive_failures = 0;
                }
                max_consecutive_failures = max_consecutive_failures.max(consecutive_failures);
            }
            Event::SendFailed { .. } => send_failed = true,
            Event::Closed { .. } => {}
        }
    }
    let summary = Summary { finished: final_acked, error_delivered, max_consecutive_failures, tolerated_abort_cause: send_failed };
    if tr.horizon_hit || tr.stuck {
        return (out, summary);
    }
    if final_acked {
        // U3 / C13: the completed file is there and is exactly the in-order blocks once each
        match &tr.final_file {
            Some(f) if *f == refr.assembled => {}
            Some(f) => push(&mut out, mv("U3-final-content", &["C02"], format!("after a completed upload the file holds {} bytes, the in-order blocks are {} bytes (or differ in content)", f.len(), refr.assembled.len()), &[])),
            None => push(&mut out, mv("U3-final-missing", &["C02", "C13"], "after a completed upload the file is missing".into(), &[])),
        }
    } else {
        // failed upload
        if refr.done && !error_delivered && !send_failed && max_consecutive_failures < RETRY_BUDGET {
            push(&mut out, mv("T2-ended-without-final-ack", &["C07", "C08"], "worker ended without acknowledging the final block it had received".into(), &[]));
        }
        match (&tr.final_file, cfg.clean) {
            (Some(_), true) => push(&mut out, mv("K1-partial-not-removed", &["C13"], "failed upload with clean-on-error: the partial file is still there".into(), &[("panic", json!(tr.panicked))])),
            (None, false) => push(&mut out, mv("K2-kept-file-missing", &["C13"], "failed upload with keep-on-error: the partial file was removed".into(), &[])),
            (Some(f), false) => {
                if !(f.len() <= refr.assembled.len() && refr.assembled[..f.len()] == f[..]) {
                    push(&mut out, mv("K3-kept-not-prefix", &["C13"], format!("kept partial file ({} bytes) is not a prefix of the bytes sent in order ({} bytes)", f.len(), refr.assembled.len()), &[]));
                }
            }
            (None, true) => {}
        }
        if !refr.done && !error_delivered && !send_failed && max_consecutive_failures < RETRY_BUDGET {
            let props: &[&'static str] = if cfg.repeat > 1 { &["C04", "C16"] } else { &["C04"] };
            push(&mut out, mv("L1-gave-up-early", props, format!("receiver ended{} before the final block although at most {} consecutive receive attempts failed", if tr.panicked { " by panic" } else { "" }, max_consecutive_failures), &[("role", json!("receiver")), ("panic", json!(tr.panicked))]));
        }
    }
    (out, summary)
}

/// M1 (C16): every burst is a concatenation of groups of exactly N+1 identical consecutive datagrams (DATA, ACK k>=1)
pub fn check_multiplicity(tr: &Trace) -> Vec<MViol> {
    let n1 = tr.cfg.repeat as usize;
    let mut out = vec![];
    let mut run: Option<(Vec<u8>, usize)> = None;
    let mut bad: Option<String> = None;
    let mut flush = |run: &mut Option<(Vec<u8>, usize)>, bad: &mut Option<String>| {
        if let Some((b, n)) = run.take() {
            let counted = matches!(decode(&b), Some(RPacket::Data { .. })) || matches!(decode(&b), Some(RPacket::Ack(k)) if k >= 1);
            if counted && n != n1 && bad.is_none() {
                *bad = Some(format!("{} emitted {} times back to back, expected exactly {}", crate::refcodec::describe(&b), n, n1));
            }
        }
    };
    for ev in &tr.events {
        match ev {
            Event::Send { bytes, .. } => match &mut run {
                Some((b, n)) if b == bytes => *n += 1,
                _ => {
                    flush(&mut run, &mut bad);
                    run = Some((bytes.clone(), 1));
                }
            },
            _ => flush(&mut run, &mut bad),
        }
    }
    flush(&mut run, &mut bad);
    if let Some(w) = bad {
        out.push(mv("M1-multiplicity", &["C16"], w, &[("n_plus_1", json!(n1))]));
    }
    out
}
