//! E1 core: a simulated `tftpd::Socket` with strict rendezvous, the virtual clock, the choice recorder
//! and the deviation-bounded re-executing explorer.

use crate::refcodec as rc;
use crate::util::*;
use std::net::SocketAddr;
use std::sync::{Arc, Condvar, Mutex};
use std::time::Duration;
use tftpd::{Packet, Socket};

pub const CLOCK_BASE_NS: i64 = 1_000_000_000_000_000; // far from zero so that `now - (T + 1 s)` is representable

#[derive(Clone, Debug, PartialEq)]
pub enum Answer {
    /// datagram handed to the worker after `delay_ns` of virtual time (delay < read timeout)
    Deliver { bytes: Vec<u8>, delay_ns: u64 },
    /// the read timeout elapses
    Timeout,
}

#[derive(Clone, Debug)]
pub enum Event {
    Send { bytes: Vec<u8>, t: i64, file: Option<(u64, u64)> },
    Recv { size: usize, t_call: i64, answer: Answer, t_return: i64 },
    /// a datagram the socket refused (it was NOT emitted)
    SendFailed { bytes: Vec<u8>, t: i64 },
    Closed { t: i64 },
}

#[derive(Clone, Copy, PartialEq, Debug)]
pub enum Snapshot {
    None,
    /// (len, hash of whole file) at every emitted datagram
    Full,
    /// (len, hash of the last <=256 bytes)
    Tail,
}

struct Inner {
    recv_pending: Option<usize>,
    answer: Option<Answer>,
    closed: bool,
    events: Vec<Event>,
    read_timeout: Duration,
    t_call: i64,
    last_sent: Vec<u8>,
    sends: usize,
    fail_send_at: Option<usize>,
}

pub struct Shared {
    m: Mutex<Inner>,
    cv: Condvar,
    /// bumped at every state change; waiters spin on it briefly before parking (hand-off latency dominates otherwise)
    gen: std::sync::atomic::AtomicU64,
    snapshot: Snapshot,
    path: String,
}

pub struct SimSocket {
    sh: Arc<Shared>,
    remote: SocketAddr,
}

pub struct Driver {
    sh: Arc<Shared>,
}

pub fn sim_pair(read_timeout: Duration, snapshot: Snapshot, path: &str, id: u16) -> (SimSocket, Driver) {
    let sh = Arc::new(Shared {
        m: Mutex::new(Inner { recv_pending: None, answer: None, closed: false, events: vec![], read_timeout, t_call: 0, last_sent: vec![], sends: 0, fail_send_at: None }),
        cv: Condvar::new(),
        gen: std::sync::atomic::AtomicU64::new(0),
        snapshot,
        path: path.to_string(),
    });
    (SimSocket { sh: sh.clone(), remote: SocketAddr::from(([127, 0, 0, 1], 40000 + id)) }, Driver { sh })
}

pub fn file_snapshot(path: &str, mode: Snapshot) -> Option<(u64, u64)> {
    match mode {
        Snapshot::None => None,
        Snapshot::Full => std::fs::read(path).ok().map(|b| (b.len() as u64, fnv64(&b))),
        Snapshot::Tail => {
            use std::io::{Read, Seek, SeekFrom};
            let mut f = std::fs::File::open(path).ok()?;
            let len = f.metadata().ok()?.len();
            let take = len.min(256);
            f.seek(SeekFrom::Start(len - take)).ok()?;
            let mut buf = vec![0u8; take as usize];
            f.read_exact(&mut buf).ok()?;
            Some((len, fnv64(&buf)))
        }
    }
}

pub fn snapshot_of_bytes(b: &[u8], mode: Snapshot) -> Option<(u64, u64)> {
    match mode {
        Snapshot::None => None,
        Snapshot::Full => Some((b.len() as u64, fnv64(b))),
        Snapshot::Tail => {
            let take = b.len().min(256);
            Some((b.len() as u64, fnv64(&b[b.len() - take..])))
        }
    }
}

impl Shared {
    fn bump(&self) {
        self.gen.fetch_add(1, std::sync::atomic::Ordering::SeqCst);
        self.cv.notify_all();
    }
    fn spin(&self, g0: u64) {
        let n = spin_budget();
        for _ in 0..n {
            if self.gen.load(std::sync::atomic::Ordering::SeqCst) != g0 {
                return;
            }
            std::hint::spin_loop();
        }
    }
}

fn spin_budget() -> u32 {
    static B: std::sync::OnceLock<u32> = std::sync::OnceLock::new();
    *B.get_or_init(|| std::env::var("VERIF_SPIN").ok().and_then(|s| s.parse().ok()).unwrap_or(4000))
}

impl Socket for SimSocket {
    fn send(&self, packet: &Packet) -> Result<(), Box<dyn std::error::Error>> {
        let bytes = packet.serialize()?; // the real encoder
        // observation taken at the instant of emission, on the worker's own thread
        let file = file_snapshot(&self.sh.path, self.sh.snapshot);
        let mut g = self.sh.m.lock().unwrap();
        let idx = g.sends;
        g.sends += 1;
        if g.fail_send_at == Some(idx) {
            // environment answer "the socket refuses this datagram" (ENOBUFS, pending ECONNREFUSED, write timeout)
            g.events.push(Event::SendFailed { bytes, t: tftpd::verif::sim_now_ns() });
            return Err("simulated send error".into());
        }
        // duplicate-packets mode: the subject pauses 1 ms (real time) before every further copy of a datagram; the same
        // millisecond passes on the virtual clock, so that a long burst of copies can reach the timeout
        if !g.last_sent.is_empty() && g.last_sent == bytes {
            tftpd::verif::sim_advance(Duration::from_millis(1));
        }
        g.last_sent = bytes.clone();
        g.events.push(Event::Send { bytes, t: tftpd::verif::sim_now_ns(), file });
        Ok(())
    }

    fn send_to(&self, packet: &Packet, _to: &SocketAddr) -> Result<(), Box<dyn std::error::Error>> {
        self.send(packet)
    }

    fn recv_with_size(&self, size: usize) -> Result<Packet, Box<dyn std::error::Error>> {
        let mut g = self.sh.m.lock().unwrap();
        g.recv_pending = Some(size);
        g.last_sent.clear();
        g.t_call = tftpd::verif::sim_now_ns();
        self.sh.bump();
        while g.answer.is_none() {
            let g0 = self.sh.gen.load(std::sync::atomic::Ordering::SeqCst);
            drop(g);
            self.sh.spin(g0);
            g = self.sh.m.lock().unwrap();
            if g.answer.is_some() {
                break;
            }
            if self.sh.gen.load(std::sync::atomic::Ordering::SeqCst) == g0 {
                g = self.sh.cv.wait(g).unwrap();
            }
        }
        let a = g.answer.take().unwrap();
        g.recv_pending = None;
        let t_call = g.t_call;
        g.events.push(Event::Recv { size, t_call, answer: a.clone(), t_return: tftpd::verif::sim_now_ns() });
        drop(g);
        match a {
            Answer::Timeout => Err("simulated read timeout".into()),
            Answer::Deliver { mut bytes, .. } => {
                bytes.truncate(size.saturating_add(4)); // what a UDP read into a size+4 buffer yields
                Ok(Packet::deserialize(&bytes)?) // the real decoder; undecodable strays become Err as with UdpSocket
            }
        }
    }

    fn recv_from_with_size(&self, size: usize) -> Result<(Packet, SocketAddr), Box<dyn std::error::Error>> {
        Ok((self.recv_with_size(size)?, self.remote))
    }

    fn remote_addr(&self) -> Result<SocketAddr, Box<dyn std::error::Error>> {
        Ok(self.remote)
    }

    fn set_read_timeout(&mut self, dur: Duration) -> Result<(), Box<dyn std::error::Error>> {
        self.sh.m.lock().unwrap().read_timeout = dur;
        Ok(())
    }

    fn set_write_timeout(&mut self, _dur: Duration) -> Result<(), Box<dyn std::error::Error>> {
        Ok(())
    }
}

impl Drop for SimSocket {
    fn drop(&mut self) {
        if let Ok(mut g) = self.sh.m.lock() {
            g.closed = true;
            g.events.push(Event::Closed { t: tftpd::verif::sim_now_ns() });
        }
        self.sh.bump();
    }
}

#[derive(Debug, PartialEq)]
pub enum WState {
    /// the worker is blocked in a receive with this buffer size
    Recv(usize),
    /// the socket has been dropped (the worker function returned or unwound)
    Closed,
    /// real-time backstop expired: the worker neither receives nor exits (machinery problem or a real hang)
    Stuck,
}

impl Driver {
    pub fn wait(&self) -> WState {
        let mut g = self.sh.m.lock().unwrap();
        let t0 = std::time::Instant::now();
        loop {
            if g.recv_pending.is_some() && g.answer.is_none() {
                return WState::Recv(g.recv_pending.unwrap());
            }
            if g.closed {
                return WState::Closed;
            }
            let g0 = self.sh.gen.load(std::sync::atomic::Ordering::SeqCst);
            drop(g);
            self.sh.spin(g0);
            g = self.sh.m.lock().unwrap();
            if (g.recv_pending.is_some() && g.answer.is_none()) || g.closed {
                continue;
            }
            if self.sh.gen.load(std::sync::atomic::Ordering::SeqCst) == g0 {
                let (g2, _) = self.sh.cv.wait_timeout(g, Duration::from_millis(200)).unwrap();
                g = g2;
            }
            if t0.elapsed() > Duration::from_secs(60) {
                return WState::Stuck;
            }
        }
    }

    /// Non-blocking state probe (used when several workers are driven at once).
    pub fn poll(&self) -> Option<WState> {
        let g = self.sh.m.lock().unwrap();
        if g.recv_pending.is_some() && g.answer.is_none() {
            Some(WState::Recv(g.recv_pending.unwrap()))
        } else if g.closed {
            Some(WState::Closed)
        } else {
            None
        }
    }

    pub fn read_timeout(&self) -> Duration {
        self.sh.m.lock().unwrap().read_timeout
    }

    /// Hands the answer to the blocked worker, advancing the virtual clock first.
    pub fn answer(&self, a: Answer) {
        let mut g = self.sh.m.lock().unwrap();
        match &a {
            Answer::Timeout => tftpd::verif::sim_advance(g.read_timeout),
            Answer::Deliver { delay_ns, .. } => tftpd::verif::sim_advance(Duration::from_nanos(*delay_ns)),
        }
        g.answer = Some(a);
        g.recv_pending = None;
        drop(g);
        self.sh.bump();
    }

    pub fn fail_send_at(&self, n: Option<usize>) {
        self.sh.m.lock().unwrap().fail_send_at = n;
    }

    pub fn events_len(&self) -> usize {
        self.sh.m.lock().unwrap().events.len()
    }

    pub fn events_from(&self, from: usize) -> Vec<Event> {
        self.sh.m.lock().unwrap().events[from..].to_vec()
    }

    pub fn take_events(&self) -> Vec<Event> {
        std::mem::take(&mut self.sh.m.lock().unwrap().events)
    }
}

pub fn clock_reset() {
    tftpd::verif::sim_enable(CLOCK_BASE_NS);
}

// ---------------------------------------------------------------- choices and exploration

#[derive(Clone, Debug)]
pub struct ChoiceRec {
    pub chosen: u16,
    /// cost of each alternative (index 0 = the conformant / default answer, cost 0)
    pub costs: Vec<u8>,
    pub label: String,
}

pub struct Chooser {
    prefix: Vec<u16>,
    pub log: Vec<ChoiceRec>,
    pub replay_error: Option<String>,
}

impl Chooser {
    pub fn new(prefix: &[u16]) -> Chooser {
        Chooser { prefix: prefix.to_vec(), log: vec![], replay_error: None }
    }
    /// `labels` is evaluated lazily only for the chosen alternative.
    pub fn choose(&mut self, costs: &[u8], label: &dyn Fn(usize) -> String) -> usize {
        let pos = self.log.len();
        let mut c = if pos < self.prefix.len() { self.prefix[pos] as usize } else { 0 };
        if c >= costs.len() {
            // divergence while replaying a prefix: hard (machinery) error, never a verdict
            self.replay_error = Some(format!("choice {} out of range at point {} ({} alternatives)", c, pos, costs.len()));
            c = 0;
        }
        self.log.push(ChoiceRec { chosen: c as u16, costs: costs.to_vec(), label: label(c) });
        c
    }
    pub fn choices(&self) -> Vec<u16> {
        self.log.iter().map(|r| r.chosen).collect()
    }
    pub fn deviations(&self) -> u64 {
        self.log.iter().map(|r| r.costs[r.chosen as usize] as u64).sum()
    }
}

pub struct ExploreStats {
    pub executions: u64,
    pub transitions: u64,
    pub capped: bool,
    pub max_dev_completed: u64,
}

/// Stateless deviation-bounded exploration (Musuvathi–Qadeer style): `run(prefix)` replays the prefix and then
/// takes choice 0 everywhere; every later choice point is expanded with each alternative whose accumulated
/// cost stays within `bound`. Bounds are iterated 0..=bound so the first counterexample has the fewest deviations.
/// `run` returns the choice log and the number of transitions it delivered; `false` from `on_exec` aborts.
pub fn explore(bound: u64, max_exec: u64, run: &mut dyn FnMut(&[u16]) -> (Vec<ChoiceRec>, u64)) -> ExploreStats {
    explore_sharded(bound, max_exec, (0, 1), run)
}

/// `shard = (i, n)`: of the executions with exactly one deviation (the children of the fault-free run), only every n-th one
/// starting with the i-th — and everything below it — is explored; the n shards together cover the whole tree (the
/// fault-free run itself is executed by every shard). Used to spread one expensive cell over several processes.
pub fn explore_sharded(bound: u64, max_exec: u64, shard: (usize, usize), run: &mut dyn FnMut(&[u16]) -> (Vec<ChoiceRec>, u64)) -> ExploreStats {
    let mut st = ExploreStats { executions: 0, transitions: 0, capped: false, max_dev_completed: 0 };
    // a single DFS at the full bound visits exactly the executions with <= bound deviations; to report the
    // completed level we process by exact deviation count: level d expands only prefixes with exactly d deviations.
    let mut frontier: Vec<Vec<u16>> = vec![vec![]];
    for level in 0..=bound {
        let mut next_level: Vec<Vec<u16>> = vec![];
        // within a level: DFS over cost-0 alternatives (timer ties), collecting cost-1 alternatives for the next level
        let mut stack = std::mem::take(&mut frontier);
        stack.reverse();
        while let Some(prefix) = stack.pop() {
            if st.executions >= max_exec {
                st.capped = true;
                return st;
            }
            let (log, trans) = run(&prefix);
            st.executions += 1;
            st.transitions += trans;
            for i in prefix.len()..log.len() {
                for alt in 1..log[i].costs.len() {
                    let cost = log[i].costs[alt] as u64;
                    let mut p: Vec<u16> = log[..i].iter().map(|r| r.chosen).collect();
                    p.push(alt as u16);
                    if cost == 0 {
                        stack.push(p);
                    } else if level + cost <= bound {
                        // costs are 0 or 1 in this harness
                        next_level.push(p);
                    }
                }
            }
        }
        st.max_dev_completed = level;
        if level == 0 && shard.1 > 1 {
            next_level = next_level.into_iter().enumerate().filter(|(k, _)| k % shard.1 == shard.0).map(|(_, p)| p).collect();
        }
        frontier = next_level;
        if frontier.is_empty() {
            st.max_dev_completed = bound;
            break;
        }
    }
    st
}

// ---------------------------------------------------------------- helpers shared by the modes

/// Absolute index of wire block number k given the highest absolute block seen so far in that direction.
pub fn abs_block(k: u16, highest: u64) -> u64 {
    // the unique K = k (mod 65536) in (H+1-32768, H+1+32768]
    let centre = highest as i64 + 1;
    let base = centre - (centre.rem_euclid(65536));
    let mut cand = base + k as i64;
    if cand > centre + 32768 {
        cand -= 65536;
    } else if cand <= centre - 32768 {
        cand += 65536;
    }
    if cand < 0 {
        cand += 65536;
    }
    cand as u64
}

/// Absolute index of a DATA block number emitted by a sender whose highest cumulatively acknowledged block is `acked`:
/// the unique K = k (mod 65536) in (acked, acked + 65536]. (A window may span up to 65535 blocks, so "nearest to the
/// highest block seen" would misread retransmissions of a large window.)
pub fn abs_after(k: u16, acked: u64) -> u64 {
    let base = acked + 1;
    let r = (k as u64 + 65536 - (base % 65536)) % 65536;
    base + r
}

/// Absolute index of an ACK number delivered to a sender with blocks (acked, hi] outstanding: an in-window value if
/// there is one, otherwise the closer of the stale and the future reading.
pub fn abs_ack(k: u16, acked: u64, hi: u64) -> u64 {
    let cand = abs_after(k, acked);
    if cand <= hi || cand < 65536 {
        return cand;
    }
    let stale = cand - 65536;
    if acked - stale <= cand - hi {
        stale
    } else {
        cand
    }
}

pub fn decode(bytes: &[u8]) -> Option<rc::RPacket> {
    rc::decode(bytes).ok()
}

pub fn describe_answer(a: &Answer) -> String {
    match a {
        Answer::Timeout => "Timeout".into(),
        Answer::Deliver { bytes, delay_ns } => {
            if *delay_ns == 0 {
                rc::describe(bytes)
            } else {
                format!("{}@+{}ns", rc::describe(bytes), delay_ns)
            }
        }
    }
}

pub fn describe_events(events: &[Event], max: usize) -> Vec<String> {
    let mut out = vec![];
    for e in events.iter().take(max) {
        out.push(match e {
            Event::Send { bytes, .. } => format!("-> {}", rc::describe(bytes)),
            Event::Recv { answer, .. } => format!("<- {}", describe_answer(answer)),
            Event::SendFailed { bytes, .. } => format!("-x {} (send error)", rc::describe(bytes)),
            Event::Closed { .. } => "closed".into(),
        });
    }
    if events.len() > max {
        out.push(format!("... ({} more events)", events.len() - max));
    }
    out
}

pub fn trace_hash(events: &[Event]) -> u64 {
    let mut h = Hasher64::new();
    for e in events {
        match e {
            Event::Send { bytes, t, file } => {
                h.feed(&[1]);
                h.feed(bytes);
                h.feed_u64(*t as u64);
                if let Some((a, b)) = file {
                    h.feed_u64(*a);
                    h.feed_u64(*b);
                }
            }
            Event::Recv { size, answer, t_return, .. } => {
                h.feed(&[2]);
                h.feed_u64(*size as u64);
                h.feed_u64(*t_return as u64);
                match answer {
                    Answer::Timeout => h.feed(&[0]),
                    Answer::Deliver { bytes, delay_ns } => {
                        h.feed(&[1]);
                        h.feed(bytes);
                        h.feed_u64(*delay_ns);
                    }
                }
            }
            Event::SendFailed { bytes, .. } => {
                h.feed(&[4]);
                h.feed(bytes);
            }
            Event::Closed { .. } => h.feed(&[3]),
        }
    }
    h.0
}
