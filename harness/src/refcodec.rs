//! Independent TFTP codec written from RFC 1350 / 2347 / 2348 / 2349 / 7440.
//! It never calls into the crate under test. Strings are kept as raw bytes.

#[derive(Clone, Debug, PartialEq, Eq)]
pub enum RPacket {
    Rrq { filename: Vec<u8>, mode: Vec<u8>, options: Vec<(Vec<u8>, Vec<u8>)> },
    Wrq { filename: Vec<u8>, mode: Vec<u8>, options: Vec<(Vec<u8>, Vec<u8>)> },
    Data { block: u16, data: Vec<u8> },
    Ack(u16),
    Error { code: u16, msg: Vec<u8> },
    Oack(Vec<(Vec<u8>, Vec<u8>)>),
}

#[derive(Clone, Copy, Debug, PartialEq, Eq)]
pub enum Reject {
    TooShort,
    BadOpcode,
    BadErrorCode,
    MissingNul,
}

pub fn encode(p: &RPacket) -> Vec<u8> {
    let mut b = Vec::new();
    let rq = |b: &mut Vec<u8>, op: u16, f: &Vec<u8>, m: &Vec<u8>, o: &Vec<(Vec<u8>, Vec<u8>)>| {
        b.extend_from_slice(&op.to_be_bytes());
        b.extend_from_slice(f);
        b.push(0);
        b.extend_from_slice(m);
        b.push(0);
        for (n, v) in o {
            b.extend_from_slice(n);
            b.push(0);
            b.extend_from_slice(v);
            b.push(0);
        }
    };
    match p {
        RPacket::Rrq { filename, mode, options } => rq(&mut b, 1, filename, mode, options),
        RPacket::Wrq { filename, mode, options } => rq(&mut b, 2, filename, mode, options),
        RPacket::Data { block, data } => {
            b.extend_from_slice(&3u16.to_be_bytes());
            b.extend_from_slice(&block.to_be_bytes());
            b.extend_from_slice(data);
        }
        RPacket::Ack(block) => {
            b.extend_from_slice(&4u16.to_be_bytes());
            b.extend_from_slice(&block.to_be_bytes());
        }
        RPacket::Error { code, msg } => {
            b.extend_from_slice(&5u16.to_be_bytes());
            b.extend_from_slice(&code.to_be_bytes());
            b.extend_from_slice(msg);
            b.push(0);
        }
        RPacket::Oack(o) => {
            b.extend_from_slice(&6u16.to_be_bytes());
            for (n, v) in o {
                b.extend_from_slice(n);
                b.push(0);
                b.extend_from_slice(v);
                b.push(0);
            }
        }
    }
    b
}

fn cstr(buf: &[u8], at: usize) -> Result<(Vec<u8>, usize), Reject> {
    // returns the string and the index just after its NUL
    let mut i = at;
    while i < buf.len() {
        if buf[i] == 0 {
            return Ok((buf[at..i].to_vec(), i + 1));
        }
        i += 1;
    }
    Err(Reject::MissingNul)
}

fn pairs(buf: &[u8], mut at: usize) -> Result<Vec<(Vec<u8>, Vec<u8>)>, Reject> {
    let mut out = vec![];
    while at < buf.len() {
        let (n, a) = cstr(buf, at)?;
        let (v, b) = cstr(buf, a)?;
        out.push((n, v));
        at = b;
    }
    Ok(out)
}

pub fn decode(buf: &[u8]) -> Result<RPacket, Reject> {
    if buf.len() < 2 {
        return Err(Reject::TooShort);
    }
    let op = u16::from_be_bytes([buf[0], buf[1]]);
    match op {
        1 | 2 => {
            let (filename, a) = cstr(buf, 2)?;
            let (mode, b) = cstr(buf, a)?;
            let options = pairs(buf, b)?;
            Ok(if op == 1 { RPacket::Rrq { filename, mode, options } } else { RPacket::Wrq { filename, mode, options } })
        }
        3 => {
            if buf.len() < 4 {
                return Err(Reject::TooShort);
            }
            Ok(RPacket::Data { block: u16::from_be_bytes([buf[2], buf[3]]), data: buf[4..].to_vec() })
        }
        4 => {
            if buf.len() < 4 {
                return Err(Reject::TooShort);
            }
            Ok(RPacket::Ack(u16::from_be_bytes([buf[2], buf[3]])))
        }
        5 => {
            if buf.len() < 4 {
                return Err(Reject::TooShort);
            }
            let code = u16::from_be_bytes([buf[2], buf[3]]);
            if code > 7 {
                return Err(Reject::BadErrorCode);
            }
            let (msg, _) = cstr(buf, 4)?;
            Ok(RPacket::Error { code, msg })
        }
        6 => Ok(RPacket::Oack(pairs(buf, 2)?)),
        _ => Err(Reject::BadOpcode),
    }
}

pub const OPTION_NAMES: [&str; 4] = ["blksize", "tsize", "timeout", "windowsize"];

pub fn is_recognised(name: &[u8]) -> bool {
    let lower: Vec<u8> = name.iter().map(|c| c.to_ascii_lowercase()).collect();
    OPTION_NAMES.iter().any(|n| n.as_bytes() == lower.as_slice())
}

/// "clearly non-numeric": not of the shape [+]digits. (A leading '+' and values beyond 2^64 are left
/// to the implementation's discretion — the statement only demands rejection of non-numeric values.)
pub fn clearly_non_numeric(v: &[u8]) -> bool {
    let d = if v.first() == Some(&b'+') { &v[1..] } else { v };
    d.is_empty() || !d.iter().all(|c| c.is_ascii_digit())
}

pub fn data(block: u16, payload: &[u8]) -> Vec<u8> {
    encode(&RPacket::Data { block, data: payload.to_vec() })
}
pub fn ack(block: u16) -> Vec<u8> {
    encode(&RPacket::Ack(block))
}
pub fn error(code: u16, msg: &str) -> Vec<u8> {
    encode(&RPacket::Error { code, msg: msg.as_bytes().to_vec() })
}
pub fn oack(opts: &[(&str, &str)]) -> Vec<u8> {
    encode(&RPacket::Oack(opts.iter().map(|(a, b)| (a.as_bytes().to_vec(), b.as_bytes().to_vec())).collect()))
}
thread_local! {
    static MODE: std::cell::RefCell<Vec<u8>> = std::cell::RefCell::new(b"octet".to_vec());
}

/// Spelling of the transfer mode used by `request` on this thread from now on (RFC 1350: any mix of upper and lower case).
pub fn set_mode(m: &str) {
    MODE.with(|x| *x.borrow_mut() = m.as_bytes().to_vec());
}

pub fn request(write: bool, filename: &[u8], opts: &[(String, String)]) -> Vec<u8> {
    let options = opts.iter().map(|(a, b)| (a.as_bytes().to_vec(), b.as_bytes().to_vec())).collect();
    let mode = MODE.with(|x| x.borrow().clone());
    let p = if write {
        RPacket::Wrq { filename: filename.to_vec(), mode, options }
    } else {
        RPacket::Rrq { filename: filename.to_vec(), mode, options }
    };
    encode(&p)
}

pub fn describe(buf: &[u8]) -> String {
    match decode(buf) {
        Ok(RPacket::Data { block, data }) => format!("DATA({},len{})", block, data.len()),
        Ok(RPacket::Ack(b)) => format!("ACK({})", b),
        Ok(RPacket::Error { code, msg }) => format!("ERROR({},{:?})", code, String::from_utf8_lossy(&msg)),
        Ok(RPacket::Oack(o)) => format!(
            "OACK({})",
            o.iter().map(|(n, v)| format!("{}={}", String::from_utf8_lossy(n), String::from_utf8_lossy(v))).collect::<Vec<_>>().join(",")
        ),
        Ok(RPacket::Rrq { filename, options, .. }) => format!("RRQ({:?},{} opts)", String::from_utf8_lossy(&filename), options.len()),
        Ok(RPacket::Wrq { filename, options, .. }) => format!("WRQ({:?},{} opts)", String::from_utf8_lossy(&filename), options.len()),
        Err(_) => format!("RAW({})", crate::util::hex(&buf[..buf.len().min(16)])),
    }
}
