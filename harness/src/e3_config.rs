//! E3 / C17: every argument vector up to a bound through Config::new and ClientConfig::new,
//! against a reference parser written from the statement ("last occurrence wins", documented defaults, fallback).

use crate::util::*;
use crate::{Outcome, Tier};
use serde_json::{json, Value};
use std::net::IpAddr;
use std::panic::{catch_unwind, AssertUnwindSafe};
use std::path::PathBuf;
use tftpd::{ClientConfig, Config, Mode};

fn dirs() -> (String, String, String) {
    // fixed (not per-pid) so that replay files stay meaningful; two empty directories
    let root = "/dev/shm/verif-c17";
    let d1 = format!("{root}/d1");
    let d2 = format!("{root}/d2");
    let _ = std::fs::create_dir_all(&d1);
    let _ = std::fs::create_dir_all(&d2);
    // a symbolic link that points nowhere: it names a non-existent directory
    let dangling = format!("{root}/dangling");
    if std::fs::symlink_metadata(&dangling).is_err() {
        let _ = std::os::unix::fs::symlink(format!("{root}/nowhere"), &dangling);
    }
    // relative directory names are resolved against the working directory
    let _ = std::env::set_current_dir(root);
    (d1, d2, format!("{root}/missing"))
}

fn server_units() -> Vec<Vec<String>> {
    let (d1, d2, dm) = dirs();
    let cwd = std::env::current_dir().map(|p| p.to_string_lossy().to_string()).unwrap_or_else(|_| ".".into());
    let s = |x: &[&str]| x.iter().map(|y| y.to_string()).collect::<Vec<_>>();
    vec![
        // simplest first: switches, then valid value flags, then invalid values, then lone flags
        s(&["-s"]), s(&["--single-port"]), s(&["-r"]), s(&["--read-only"]), s(&["--overwrite"]), s(&["--keep-on-error"]),
        s(&["-d", &d1]), s(&["--directory", &d2]), s(&["-rd", &d1]), s(&["--receive-directory", &d2]), s(&["-sd", &d2]), s(&["--send-directory", &d1]),
        s(&["-p", "69"]), s(&["--port", "65535"]), s(&["-p", "0"]),
        s(&["-i", "127.0.0.1"]), s(&["--ip-address", "::1"]), s(&["-i", "0.0.0.0"]),
        s(&["--duplicate-packets", "0"]), s(&["--duplicate-packets", "254"]),
        s(&["-rd", "d1"]), s(&["-sd", "d2"]), s(&["-d", "d2"]),
        s(&["-d", &dm]), s(&["-rd", &dm]), s(&["-sd", &dm]),
        s(&["-p", "65536"]), s(&["-p", "-1"]), s(&["-i", "300.1.1.1"]),
        s(&["--duplicate-packets", "255"]), s(&["--duplicate-packets", "256"]), s(&["--duplicate-packets", "x"]),
        s(&["--bogus"]), s(&["word"]),
        s(&["-i"]), s(&["-p"]), s(&["-d"]), s(&["-rd"]), s(&["-sd"]), s(&["--duplicate-packets"]),
        // values that coincide with a default: the working directory spelled out, an IPv4-mapped IPv6 address
        s(&["-rd", &cwd]), s(&["-sd", &cwd]), s(&["-i", "::ffff:127.0.0.1"]),
        s(&["-d", "/dev/shm/verif-c17/dangling"]), s(&["-rd", "/dev/shm/verif-c17/dangling"]), s(&["-sd", "dangling"]),
    ]
}

fn client_units() -> Vec<Vec<String>> {
    let (d1, d2, dm) = dirs();
    let cwd = std::env::current_dir().map(|p| p.to_string_lossy().to_string()).unwrap_or_else(|_| ".".into());
    let s = |x: &[&str]| x.iter().map(|y| y.to_string()).collect::<Vec<_>>();
    vec![
        s(&["a.txt"]), s(&["dir/b.txt"]), s(&["dir\\c.txt"]), s(&["/abs/d.txt"]), s(&["\\win\\e.txt"]),
        s(&["-u"]), s(&["--upload"]), s(&["-d"]), s(&["--download"]), s(&["--keep-on-error"]),
        s(&["-b", "512"]), s(&["--blocksize", "8"]), s(&["-w", "1"]), s(&["--windowsize", "65535"]), s(&["-t", "1"]), s(&["--timeout", "255"]),
        s(&["-p", "69"]), s(&["--port", "65535"]), s(&["-i", "127.0.0.1"]), s(&["--ip-address", "::1"]),
        s(&["-rd", &d1]), s(&["--receive-directory", &d2]),
        s(&["-rd", &dm]), s(&["-b", "x"]), s(&["-b", "-1"]), s(&["-w", "65536"]), s(&["-w", "x"]), s(&["-t", "x"]), s(&["-p", "65536"]), s(&["-i", "bad"]),
        s(&["-i"]), s(&["-p"]), s(&["-b"]), s(&["-w"]), s(&["-t"]), s(&["-rd"]),
        s(&["-i", "::ffff:127.0.0.1"]), s(&["--ip-address", "::ffff:7f00:1"]), s(&["-rd", &cwd]),
        s(&["-rd", "/dev/shm/verif-c17/dangling"]), s(&["--receive-directory", "dangling"]),
    ]
}

#[derive(Clone, Debug, PartialEq)]
struct SCfg {
    ip: IpAddr,
    port: u16,
    directory: PathBuf,
    receive: PathBuf,
    send: PathBuf,
    single: bool,
    read_only: bool,
    dup: u8,
    overwrite: bool,
    clean: bool,
}

fn ref_server(tokens: &[String]) -> Result<SCfg, String> {
    let mut c = SCfg {
        ip: "127.0.0.1".parse().unwrap(),
        port: 69,
        directory: std::env::current_dir().unwrap(),
        receive: PathBuf::new(),
        send: PathBuf::new(),
        single: false,
        read_only: false,
        dup: 0,
        overwrite: false,
        clean: true,
    };
    let mut rd_given = false;
    let mut sd_given = false;
    let mut i = 0;
    while i < tokens.len() {
        let t = tokens[i].as_str();
        let value_flag = matches!(t, "-i" | "--ip-address" | "-p" | "--port" | "-d" | "--directory" | "-rd" | "--receive-directory" | "-sd" | "--send-directory" | "--duplicate-packets");
        if value_flag {
            let Some(v) = tokens.get(i + 1) else { return Err(format!("{t} misses its value")) };
            match t {
                "-i" | "--ip-address" => c.ip = v.parse::<IpAddr>().map_err(|e| e.to_string())?,
                "-p" | "--port" => c.port = v.parse::<u16>().map_err(|e| e.to_string())?,
                "--duplicate-packets" => {
                    let n = v.parse::<u32>().map_err(|e| e.to_string())?;
                    if n >= 255 {
                        return Err("duplicate-packets >= 255".into());
                    }
                    c.dup = n as u8;
                }
                _ => {
                    if !std::path::Path::new(v).exists() {
                        return Err("non-existent directory".into());
                    }
                    match t {
                        "-d" | "--directory" => c.directory = v.into(),
                        "-rd" | "--receive-directory" => {
                            c.receive = v.into();
                            rd_given = true;
                        }
                        _ => {
                            c.send = v.into();
                            sd_given = true;
                        }
                    }
                }
            }
            i += 2;
            continue;
        }
        match t {
            "-s" | "--single-port" => c.single = true,
            "-r" | "--read-only" => c.read_only = true,
            "--overwrite" => c.overwrite = true,
            "--keep-on-error" => c.clean = false,
            other => return Err(format!("unknown flag {other}")),
        }
        i += 1;
    }
    if !rd_given {
        c.receive = c.directory.clone();
    }
    if !sd_given {
        c.send = c.directory.clone();
    }
    Ok(c)
}

fn impl_server(tokens: &[String]) -> Result<Result<SCfg, String>, String> {
    let mut argv = vec!["tftpd".to_string()];
    argv.extend(tokens.iter().cloned());
    let r = catch_unwind(AssertUnwindSafe(|| Config::new(argv.into_iter())));
    match r {
        Err(_) => Err(format!("panic: {}", last_panic())),
        Ok(Err(e)) => Ok(Err(e.to_string())),
        Ok(Ok(c)) => Ok(Ok(SCfg {
            ip: c.ip_address,
            port: c.port,
            directory: c.directory,
            receive: c.receive_directory,
            send: c.send_directory,
            single: c.single_port,
            read_only: c.read_only,
            dup: c.duplicate_packets,
            overwrite: c.overwrite,
            clean: c.clean_on_error,
        })),
    }
}

#[derive(Clone, Debug, PartialEq)]
struct CCfg {
    ip: IpAddr,
    port: u16,
    blocksize: usize,
    windowsize: u16,
    timeout_s: u64,
    upload: bool,
    receive: PathBuf,
    file: Option<PathBuf>,
    clean: bool,
}

fn ref_client(tokens: &[String]) -> Result<CCfg, String> {
    let mut c = CCfg { ip: "127.0.0.1".parse().unwrap(), port: 69, blocksize: 512, windowsize: 1, timeout_s: 5, upload: false, receive: PathBuf::new(), file: None, clean: true };
    let mut i = 0;
    while i < tokens.len() {
        let t = tokens[i].as_str();
        let value_flag = matches!(t, "-i" | "--ip-address" | "-p" | "--port" | "-b" | "--blocksize" | "-w" | "--windowsize" | "-t" | "--timeout" | "-rd" | "--receive-directory");
        if value_flag {
            let Some(v) = tokens.get(i + 1) else { return Err(format!("{t} misses its value")) };
            match t {
                "-i" | "--ip-address" => c.ip = v.parse::<IpAddr>().map_err(|e| e.to_string())?,
                "-p" | "--port" => c.port = v.parse::<u16>().map_err(|e| e.to_string())?,
                "-b" | "--blocksize" => c.blocksize = v.parse::<usize>().map_err(|e| e.to_string())?,
                "-w" | "--windowsize" => c.windowsize = v.parse::<u16>().map_err(|e| e.to_string())?,
                "-t" | "--timeout" => c.timeout_s = v.parse::<u64>().map_err(|e| e.to_string())?,
                _ => {
                    if !std::path::Path::new(v).exists() {
                        return Err("non-existent directory".into());
                    }
                    c.receive = v.into();
                }
            }
            i += 2;
            continue;
        }
        match t {
            "-u" | "--upload" => c.upload = true,
            "-d" | "--download" => c.upload = false,
            "--keep-on-error" => c.clean = false,
            word => {
                // a file name; separators normalised to '/', leading separators stripped
                let w = word.trim_start_matches(|ch| ch == '/' || ch == '\\').replace('\\', "/");
                c.file = Some(PathBuf::from(w));
            }
        }
        i += 1;
    }
    Ok(c)
}

fn impl_client(tokens: &[String]) -> Result<Result<CCfg, String>, String> {
    let mut argv = vec!["tftpc".to_string()];
    argv.extend(tokens.iter().cloned());
    let r = catch_unwind(AssertUnwindSafe(|| ClientConfig::new(argv.into_iter())));
    match r {
        Err(_) => Err(format!("panic: {}", last_panic())),
        Ok(Err(e)) => Ok(Err(e.to_string())),
        Ok(Ok(c)) => Ok(Ok(CCfg {
            ip: c.remote_ip_address,
            port: c.port,
            blocksize: c.blocksize,
            windowsize: c.windowsize,
            timeout_s: c.timeout.as_secs(),
            upload: c.mode == Mode::Upload,
            receive: c.receive_directory,
            file: Some(c.file_path),
            clean: c.clean_on_error,
        })),
    }
}

fn flag_class(unit: &[String], _client: bool) -> String {
    // the (server) setting a unit touches (for the permutation check: no setting may repeat)
    let t = unit[0].as_str();
    match t {
        "-i" | "--ip-address" => "ip",
        "-p" | "--port" => "port",
        "-d" | "--directory" => "dir",
        "-rd" | "--receive-directory" => "rd",
        "-sd" | "--send-directory" => "sd",
        "-s" | "--single-port" => "single",
        "-r" | "--read-only" => "ro",
        "--overwrite" => "ow",
        "--keep-on-error" => "keep",
        "--duplicate-packets" => "dup",
        "-b" | "--blocksize" => "blk",
        "-w" | "--windowsize" => "ws",
        "-t" | "--timeout" => "to",
        _ => "file",
    }
    .to_string()
}

struct Acc {
    c: Counters,
    client: bool,
    units: Vec<Vec<String>>,
}

impl Acc {
    fn judge(&mut self, idx: &[usize]) {
        let tokens: Vec<String> = idx.iter().flat_map(|i| self.units[*i].iter().cloned()).collect();
        self.c.executions += 1;
        self.c.states += 1;
        self.c.transitions += 1;
        let mut bad: Option<(String, String)> = None;
        let mut ok_cfg = false;
        if self.client {
            let want = ref_client(&tokens);
            match impl_client(&tokens) {
                Err(p) => bad = Some(("panic".into(), p)),
                Ok(got) => match (&want, &got) {
                    (Err(w), Ok(_)) => bad = Some(("accepts-invalid".into(), format!("accepted although: {w}"))),
                    (Ok(_), Err(g)) => bad = Some(("rejects-valid".into(), format!("rejected a valid vector: {g}"))),
                    (Ok(w), Ok(g)) => {
                        ok_cfg = true;
                        let mut g2 = g.clone();
                        if w.file.is_none() {
                            g2.file = None; // no file named: whatever the parser leaves there is not compared
                        }
                        if *w != g2 {
                            bad = Some(("wrong-config".into(), format!("expected {:?} got {:?}", w, g2)));
                        }
                    }
                    (Err(_), Err(_)) => {}
                },
            }
        } else {
            let want = ref_server(&tokens);
            match impl_server(&tokens) {
                Err(p) => bad = Some(("panic".into(), p)),
                Ok(got) => match (&want, &got) {
                    (Err(w), Ok(_)) => bad = Some(("accepts-invalid".into(), format!("accepted although: {w}"))),
                    (Ok(_), Err(g)) => bad = Some(("rejects-valid".into(), format!("rejected a valid vector: {g}"))),
                    (Ok(w), Ok(g)) => {
                        ok_cfg = true;
                        if w != g {
                            bad = Some(("wrong-config".into(), format!("expected {:?} got {:?}", w, g)));
                        }
                    }
                    (Err(_), Err(_)) => {}
                },
            }
            // model-free order independence: complete units touching pairwise different settings
            if bad.is_none() && ok_cfg && idx.len() >= 2 {
                let classes: Vec<String> = idx.iter().map(|i| flag_class(&self.units[*i], false)).collect();
                let mut s = classes.clone();
                s.sort();
                s.dedup();
                if s.len() == classes.len() && idx.windows(2).any(|w| w[0] > w[1]) {
                    let mut sorted = idx.to_vec();
                    sorted.sort();
                    let t2: Vec<String> = sorted.iter().flat_map(|i| self.units[*i].iter().cloned()).collect();
                    self.c.transitions += 1;
                    self.c.add_extra("permutation_comparisons", 1);
                    if let (Ok(Ok(a)), Ok(Ok(b))) = (impl_server(&tokens), impl_server(&t2)) {
                        if a != b {
                            bad = Some(("order-dependent".into(), format!("{:?} vs sorted order {:?}: {:?} != {:?}", tokens, t2, a, b)));
                        }
                    }
                }
            }
        }
        if ok_cfg {
            self.c.nontrivial += 1;
        }
        if let Some((clause, what)) = bad {
            self.c.violations.push(Violation {
                property: "C17".into(),
                clause,
                facts: facts(&[("parser", json!(if self.client { "client" } else { "server" }))]),
                what: format!("args {:?}: {}", tokens, what),
                replay: json!({"engine": "e3_config", "client": self.client, "args": tokens}),
                weight: tokens.len() as u64,
            });
            if self.c.violations.len() > 3000 {
                self.c.trim_violations(3);
            }
        }
    }
    fn rec(&mut self, idx: &mut Vec<usize>, more: usize, allowed: &[usize]) {
        self.judge(idx);
        if more == 0 {
            return;
        }
        for &u in allowed {
            idx.push(u);
            self.rec(idx, more - 1, allowed);
            idx.pop();
        }
    }
}

pub fn cell(spec: &Value) -> Value {
    let client = spec["client"].as_bool().unwrap_or(false);
    let units = if client { client_units() } else { server_units() };
    let allowed: Vec<usize> = match spec["allowed"].as_array() {
        Some(a) => a.iter().map(|x| x.as_u64().unwrap() as usize).collect(),
        None => (0..units.len()).collect(),
    };
    let mut acc = Acc { c: Counters::default(), client, units };
    let mut idx: Vec<usize> = spec["prefix"].as_array().unwrap().iter().map(|x| x.as_u64().unwrap() as usize).collect();
    let more = spec["more"].as_u64().unwrap() as usize;
    acc.rec(&mut idx, more, &allowed);
    let ex: Vec<String> = idx.iter().flat_map(|i| acc.units[*i].iter().cloned()).collect();
    acc.c.samples.push(json!({"parser": if client { "client" } else { "server" }, "prefix_args": ex, "further_units": more}));
    acc.c.trace_hashes.insert(fnv64(spec.to_string().as_bytes()));
    acc.c.trim_violations(3);
    acc.c.to_json()
}

pub fn check(tier: Tier) -> Outcome {
    let ns = server_units().len();
    let nc = client_units().len();
    let depth = if tier == Tier::Quick { 3 } else { 5 };
    let mut cells = vec![json!({"client": false, "prefix": [], "more": 0}), json!({"client": true, "prefix": [], "more": 0})];
    for i in 0..ns {
        cells.push(json!({"client": false, "prefix": [i], "more": depth - 1}));
    }
    for i in 0..nc {
        cells.push(json!({"client": true, "prefix": [i], "more": depth - 1}));
    }
    if tier == Tier::Thorough {
        // depth 6 on the directory + switch sub-alphabet
        let su = server_units();
        let sub_s: Vec<usize> = (0..su.len()).filter(|i| matches!(su[*i][0].as_str(), "-s" | "--single-port" | "-r" | "--read-only" | "--overwrite" | "--keep-on-error" | "-d" | "--directory" | "-rd" | "--receive-directory" | "-sd" | "--send-directory") && su[*i].len() >= 1 && !(su[*i].len() == 1 && su[*i][0].starts_with("-d")) ).filter(|i| su[*i].len() == 2 || !matches!(su[*i][0].as_str(), "-d" | "-rd" | "-sd")).collect();
        for &i in &sub_s {
            for &j in &sub_s {
                cells.push(json!({"client": false, "prefix": [i, j], "more": 4, "allowed": sub_s}));
            }
        }
        let cu = client_units();
        let sub_c: Vec<usize> = (0..cu.len()).filter(|i| cu[*i].len() == 1 && !cu[*i][0].starts_with("-i") && !matches!(cu[*i][0].as_str(), "-p" | "-b" | "-w" | "-t" | "-rd") || (cu[*i].len() == 2 && matches!(cu[*i][0].as_str(), "-rd" | "--receive-directory"))).collect();
        for &i in &sub_c {
            for &j in &sub_c {
                cells.push(json!({"client": true, "prefix": [i, j], "more": 4, "allowed": sub_c}));
            }
        }
    }
    let n = cells.len();
    let res = run_cells("c17", cells, &crate::pool_opts(tier));
    let mut out = Outcome::new("C17", "model_checking");
    out.absorb(res, n);
    out.rule = format!("all argument vectors of <= {depth} flag units over {ns} server units / {nc} client units (every value flag in short and long spelling with valid value, invalid value, and as last argument; every switch in both spellings; unknown flag; bare word; existing and missing directories){}. Each vector goes through the real Config::new / ClientConfig::new and is compared field by field with a reference parser written from the statement; vectors whose units touch pairwise different settings are additionally compared with their sorted permutation (model-free order independence). non-trivial = vectors that yield a configuration. states = vectors, transitions = parser calls.", if tier == Tier::Thorough { "; depth 6 on the directory+switch sub-alphabet" } else { "" });
    out.assumptions = vec!["-h/--help is excluded (it calls process::exit)".into(), "client: argv[0] is not a bare word; when no file is named the file_path field is not compared; unknown flags are not in the client alphabet (the client treats them as file names, the statement's error list is the server's)".into()];
    out
}

pub fn replay(v: &Value) -> String {
    let tokens: Vec<String> = v["args"].as_array().map(|a| a.iter().map(|x| x.as_str().unwrap_or("").to_string()).collect()).unwrap_or_default();
    if v["client"].as_bool().unwrap_or(false) {
        format!("args {:?}\n reference: {:?}\n implementation: {:?}", tokens, ref_client(&tokens), impl_client(&tokens))
    } else {
        format!("args {:?}\n reference: {:?}\n implementation: {:?}", tokens, ref_server(&tokens), impl_server(&tokens))
    }
}
