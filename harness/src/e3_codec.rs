//! E3: exhaustive enumeration for the codec properties C10 (decoder totality) and C11 (round trip / wire layout).

use crate::refcodec::{self as rc, RPacket, Reject};
use crate::util::*;
use crate::{Outcome, Tier};
use serde_json::{json, Value};
use std::panic::{catch_unwind, AssertUnwindSafe};
use tftpd::{ErrorCode, Opcode, OptionType, Packet, TransferOption};

// ------------------------------------------------------------------ C10

fn tokens() -> Vec<Vec<u8>> {
    let mut t: Vec<Vec<u8>> = vec![];
    for b in [0x00u8, 0x01, 0x02, 0x03, 0x04, 0x05, 0x06, 0x07, 0xFF, b'0', b'9', b'a', b'-'] {
        t.push(vec![b]);
    }
    for w in ["blksize", "TSIZE", "timeout", "windowsize", "18446744073709551615", "18446744073709551616"] {
        t.push(w.as_bytes().to_vec());
    }
    t
}

fn kind_name(input: &[u8]) -> &'static str {
    if input.len() < 2 {
        return "short";
    }
    match u16::from_be_bytes([input[0], input[1]]) {
        1 => "RRQ",
        2 => "WRQ",
        3 => "DATA",
        4 => "ACK",
        5 => "ERROR",
        6 => "OACK",
        _ => "other",
    }
}

/// Returns (outcome class id for vacuity statistics, optional violation (clause, what))
pub fn judge_decode(input: &[u8]) -> (u64, Option<(String, String)>) {
    let r = catch_unwind(AssertUnwindSafe(|| Packet::deserialize(input)));
    let refd = rc::decode(input);
    let ref_class: u64 = match &refd {
        Ok(RPacket::Rrq { .. }) => 1,
        Ok(RPacket::Wrq { .. }) => 2,
        Ok(RPacket::Data { .. }) => 3,
        Ok(RPacket::Ack(_)) => 4,
        Ok(RPacket::Error { .. }) => 5,
        Ok(RPacket::Oack(_)) => 6,
        Err(Reject::TooShort) => 10,
        Err(Reject::BadOpcode) => 11,
        Err(Reject::BadErrorCode) => 12,
        Err(Reject::MissingNul) => 13,
    };
    match r {
        Err(_) => (ref_class * 4 + 3, Some(("panic".into(), format!("Packet::deserialize panicked on {}: {}", hex(input), last_panic())))),
        Ok(Err(_)) => (ref_class * 4, None),
        Ok(Ok(p)) => {
            let class = ref_class * 4 + 1;
            // (b) mandatory rejections
            match &refd {
                Err(why) => {
                    return (class, Some((format!("accepts-{:?}", why), format!("accepted a {} datagram that must be rejected ({:?}): {}", kind_name(input), why, hex(input)))));
                }
                Ok(rp) => {
                    let opts = match rp {
                        RPacket::Rrq { options, .. } | RPacket::Wrq { options, .. } | RPacket::Oack(options) => Some(options),
                        _ => None,
                    };
                    if let Some(opts) = opts {
                        for (n, v) in opts {
                            if rc::is_recognised(n) && rc::clearly_non_numeric(v) {
                                return (class, Some(("accepts-non-numeric".into(), format!("accepted non-numeric value {:?} for option {:?}: {}", String::from_utf8_lossy(v), String::from_utf8_lossy(n), hex(input)))));
                            }
                        }
                    }
                }
            }
            // (c) stability
            let again = catch_unwind(AssertUnwindSafe(|| match p.serialize() {
                Ok(bytes) => match Packet::deserialize(&bytes) {
                    Ok(p2) => {
                        if p2 == p {
                            Ok(())
                        } else {
                            Err(format!("decode(encode(decode(x))) = {:?} differs from decode(x) = {:?}", p2, p))
                        }
                    }
                    Err(e) => Err(format!("re-encoded packet {:?} is rejected: {e}", p)),
                },
                Err(e) => Err(format!("accepted packet cannot be re-encoded: {e}")),
            }));
            match again {
                Err(_) => (class, Some(("panic".into(), format!("re-encoding/decoding panicked for {}", hex(input))))),
                Ok(Err(m)) => (class, Some(("unstable".into(), format!("{} (input {})", m, hex(input))))),
                Ok(Ok(())) => (class, None),
            }
        }
    }
}

struct C10Acc {
    c: Counters,
    classes: std::collections::BTreeMap<u64, u64>,
}

impl C10Acc {
    fn new() -> Self {
        C10Acc { c: Counters::default(), classes: Default::default() }
    }
    fn one(&mut self, input: &[u8], how: &str) {
        let (class, viol) = judge_decode(input);
        self.c.executions += 1;
        self.c.states += 1;
        self.c.transitions += 1;
        *self.classes.entry(class).or_insert(0) += 1;
        if class % 4 == 1 {
            self.c.nontrivial += 1; // accepted inputs exercise clauses (b) and (c)
        }
        if let Some((clause, what)) = viol {
            self.c.violations.push(Violation {
                property: "C10".into(),
                clause,
                facts: facts(&[("kind", json!(kind_name(input)))]),
                what,
                replay: json!({"engine": "e3_codec", "check": "C10", "input_hex": hex(input), "family": how}),
                weight: input.len() as u64,
            });
            if self.c.violations.len() > 4000 {
                self.c.trim_violations(3);
            }
        }
    }
    fn finish(mut self) -> Value {
        for (k, _) in &self.classes {
            self.c.trace_hashes.insert(*k);
        }
        self.c.extra.insert("outcome_classes".into(), json!(self.classes.iter().map(|(k, v)| (k.to_string(), *v)).collect::<std::collections::BTreeMap<_, _>>()));
        self.c.trim_violations(3);
        self.c.to_json()
    }
}

fn enum_tokens(acc: &mut C10Acc, toks: &[Vec<u8>], buf: &mut Vec<u8>, depth_left: usize) {
    acc.one(buf, "tokens");
    if depth_left == 0 {
        return;
    }
    for t in toks {
        let l = buf.len();
        buf.extend_from_slice(t);
        enum_tokens(acc, toks, buf, depth_left - 1);
        buf.truncate(l);
    }
}

pub fn c10_cell(spec: &Value) -> Value {
    let mut acc = C10Acc::new();
    let toks = tokens();
    match spec["family"].as_str().unwrap_or("") {
        "tokens" => {
            // all token strings starting with the given token prefix, with up to `more` further tokens
            let mut buf = vec![];
            for i in spec["prefix"].as_array().unwrap() {
                buf.extend_from_slice(&toks[i.as_u64().unwrap() as usize]);
            }
            let more = spec["more"].as_u64().unwrap() as usize;
            enum_tokens(&mut acc, &toks, &mut buf, more);
            if acc.c.samples.is_empty() {
                acc.c.samples.push(json!({"family": "tokens", "example_input_hex": hex(&buf), "prefix_tokens": spec["prefix"], "more": more}));
            }
        }
        "short" => {
            // the empty datagram and every single byte
            acc.one(&[], "short");
            for b in 0..=255u8 {
                acc.one(&[b], "short");
            }
            acc.c.samples.push(json!({"family": "short", "inputs": "'' and all 256 one-byte datagrams"}));
        }
        "opcodes" => {
            // all two-byte prefixes in [lo,hi) x tails
            let lo = spec["lo"].as_u64().unwrap() as u32;
            let hi = spec["hi"].as_u64().unwrap() as u32;
            let tails: Vec<Vec<u8>> = vec![
                vec![], vec![0], vec![0, 0], vec![0, 1], vec![0, 7], vec![0, 8], vec![0xff, 0xff], vec![0, 1, b'a'], vec![0, 1, b'a', 0],
                b"a\0octet\0".to_vec(), b"a\0octet\0blksize\0".to_vec(), b"a\0octet\0blksize\0x\0".to_vec(), b"blksize\08\0".to_vec(),
                b"a\0octet\0blksize\08\0".to_vec(),
            ];
            for op in lo..hi {
                for t in &tails {
                    let mut b = (op as u16).to_be_bytes().to_vec();
                    b.extend_from_slice(t);
                    acc.one(&b, "opcodes");
                }
            }
            acc.c.samples.push(json!({"family": "opcodes", "range": [lo, hi], "tails": tails.len()}));
        }
        "mutations" => {
            // every valid encoding from a small corpus: truncated at every length, every byte replaced by 00 / FF, one byte deleted
            let corpus = mutation_corpus();
            for base in &corpus {
                for l in 0..=base.len() {
                    acc.one(&base[..l], "truncate");
                }
                for i in 0..base.len() {
                    for r in [0x00u8, 0xFF, b'0', b'x', b'-', b'+'] {
                        if base[i] != r {
                            let mut m = base.clone();
                            m[i] = r;
                            acc.one(&m, "replace");
                        }
                    }
                    let mut m = base.clone();
                    m.remove(i);
                    acc.one(&m, "delete");
                    let mut m = base.clone();
                    m.insert(i, 0);
                    acc.one(&m, "insert-nul");
                }
            }
            acc.c.samples.push(json!({"family": "mutations", "corpus": corpus.iter().map(|b| hex(b)).collect::<Vec<_>>()}));
        }
        "long" => {
            // long strings of 1-, 2-, 3- and 4-byte characters at every length up to 300 characters, with and without a
            // one-byte offset, in every string position of every packet kind (fixed caps / char-boundary arithmetic)
            let units: [&str; 4] = ["a", "\u{e9}", "\u{2713}", "\u{1F600}"];
            let u = units[spec["unit"].as_u64().unwrap() as usize];
            for n in 0..=300usize {
                for pre in ["", "x"] {
                    let s = format!("{pre}{}", u.repeat(n));
                    let b = s.as_bytes();
                    let mut inputs: Vec<Vec<u8>> = vec![];
                    inputs.push([&[0u8, 5, 0, 1][..], b, &[0]].concat());
                    inputs.push([&[0u8, 5, 0, 1][..], b].concat());
                    inputs.push([&[0u8, 1][..], b, &[0], b"octet", &[0]].concat());
                    inputs.push([&[0u8, 2][..], b"f", &[0], b, &[0]].concat());
                    inputs.push([&[0u8, 1][..], b"f", &[0], b"octet", &[0], b, &[0], b"1", &[0]].concat());
                    inputs.push([&[0u8, 1][..], b"f", &[0], b"octet", &[0], b"blksize", &[0], b, &[0]].concat());
                    inputs.push([&[0u8, 6][..], b, &[0], b"1", &[0]].concat());
                    inputs.push([&[0u8, 6][..], b"tsize", &[0], b, &[0]].concat());
                    inputs.push([&[0u8, 3, 0, 1][..], b].concat());
                    for i in inputs {
                        acc.one(&i, "long");
                    }
                }
            }
            acc.c.samples.push(json!({"family": "long", "unit": u, "lengths": "0..=300 characters, offset 0/1, 9 packet shapes"}));
        }
        "manyopts" => {
            // n well-formed options, then one whose value is not numeric / whose name lacks a value / nothing: for every n
            let names: [&[u8]; 4] = [b"blksize", b"timeout", b"tsize", b"windowsize"];
            for n in (0..=70usize).chain([100, 300]) {
                for op in [1u8, 2, 6] {
                    let mut base: Vec<u8> = vec![0, op];
                    if op != 6 {
                        base.extend_from_slice(b"f\0octet\0");
                    }
                    for i in 0..n {
                        base.extend_from_slice(names[i % 4]);
                        base.push(0);
                        base.extend_from_slice(b"8");
                        base.push(0);
                    }
                    acc.one(&base, "manyopts");
                    acc.one(&[&base[..], b"blksize\0abc\0"].concat(), "manyopts");
                    acc.one(&[&base[..], b"timeout\0"].concat(), "manyopts");
                    acc.one(&[&base[..], b"tsize\0001"].concat(), "manyopts");
                    acc.one(&[&base[..], b"x"].concat(), "manyopts");
                }
            }
            acc.c.samples.push(json!({"family": "manyopts", "lengths": "0..=70, 100, 300 well-formed options followed by a malformed one"}));
        }
        other => return json!({"machinery_error": format!("unknown C10 family {other}")}),
    }
    acc.finish()
}

fn mutation_corpus() -> Vec<Vec<u8>> {
    let o = |a: &str, b: &str| (a.as_bytes().to_vec(), b.as_bytes().to_vec());
    vec![
        rc::encode(&RPacket::Rrq { filename: b"file.bin".to_vec(), mode: b"octet".to_vec(), options: vec![] }),
        rc::encode(&RPacket::Wrq { filename: b"f".to_vec(), mode: b"netascii".to_vec(), options: vec![o("blksize", "1428"), o("tsize", "0"), o("timeout", "3"), o("windowsize", "4")] }),
        rc::encode(&RPacket::Rrq { filename: b"f".to_vec(), mode: b"octet".to_vec(), options: vec![o("BlkSize", "8"), o("unknown", "zz"), o("WINDOWSIZE", "65535")] }),
        rc::encode(&RPacket::Data { block: 1, data: vec![1, 2, 3, 0, 5] }),
        rc::encode(&RPacket::Data { block: 65535, data: vec![] }),
        rc::encode(&RPacket::Ack(0)),
        rc::encode(&RPacket::Ack(513)),
        rc::encode(&RPacket::Error { code: 1, msg: b"not found".to_vec() }),
        rc::encode(&RPacket::Error { code: 7, msg: vec![] }),
        rc::encode(&RPacket::Oack(vec![o("blksize", "512"), o("tsize", "18446744073709551615")])),
        rc::encode(&RPacket::Oack(vec![])),
        rc::encode(&RPacket::Oack(vec![o("windowsize", "16")])),
        rc::encode(&RPacket::Rrq { filename: b"f".to_vec(), mode: b"octet".to_vec(), options: vec![o("timeout", "10")] }),
    ]
}

pub fn c10_check(tier: Tier) -> Outcome {
    let nt = tokens().len();
    let mut cells = vec![json!({"family": "short"}), json!({"family": "mutations"}), json!({"family": "manyopts"})];
    for u in 0..4 {
        cells.push(json!({"family": "long", "unit": u}));
    }
    for k in 0..16u32 {
        cells.push(json!({"family": "opcodes", "lo": k * 4096, "hi": (k + 1) * 4096}));
    }
    // token strings: quick = all strings of <= 5 tokens; thorough = additionally <= 7 tokens after a valid opcode
    let (free_len, op_len) = if tier == Tier::Quick { (5usize, 0usize) } else { (6usize, 8usize) };
    // strings of length 0 and 1 (the one-token strings are re-visited as cell roots below; harmless)
    cells.push(json!({"family": "tokens", "prefix": [], "more": 0}));
    for i in 0..nt {
        for j in 0..nt {
            // root = tokens i,j ; explore up to free_len-2 more
            cells.push(json!({"family": "tokens", "prefix": [i, j], "more": free_len - 2}));
        }
        cells.push(json!({"family": "tokens", "prefix": [i], "more": 0}));
    }
    if op_len > 0 {
        // prefix = 00 <opcode 1..6> <third token>: (op_len - 3) more tokens
        for op in 1..=6usize {
            for k in 0..nt {
                for l in 0..nt {
                    cells.push(json!({"family": "tokens", "prefix": [0, op, k, l], "more": op_len - 4}));
                }
            }
        }
    }
    let ncells = cells.len();
    let res = run_cells("c10", cells, &crate::pool_opts(tier));
    let mut out = Outcome::new("C10", "model_checking");
    out.absorb(res, ncells);
    out.rule = format!(
        "exhaustive enumeration of datagrams: all strings of <= {free_len} tokens over a {nt}-token alphabet (NUL, opcode bytes 01..07, FF, digits, letter, '-', the four option names in mixed case, 2^64-1, 2^64){}; the empty and all 1-byte datagrams; all 65536 opcode prefixes x 14 tails; every truncation / byte replacement / deletion / NUL insertion of 11 valid encodings; strings of 0..=300 one-, two-, three- and four-byte characters (offset 0/1) in every string position of every packet kind; requests and OACKs with 0..=70, 100, 300 well-formed options followed by a malformed one. Each input goes through the real Packet::deserialize under catch_unwind; non-trivial = accepted by the implementation (exercises mandatory-rejection and stability clauses). states = inputs, transitions = decoder calls.",
        if op_len > 0 { format!(", plus all strings of <= {op_len} tokens that start with a valid opcode") } else { String::new() }
    );
    out.assumptions = vec![
        "the reduced byte alphabet contains every structurally relevant byte (NUL, each opcode low byte, a non-UTF-8 byte, digits, sign, letters, recognised option names)".into(),
        "'non-numeric' is judged as: not of the shape [+]digits; values beyond 2^64-1 are left to the implementation".into(),
    ];
    out
}

// ------------------------------------------------------------------ C11

fn opt_types() -> [(OptionType, &'static str); 4] {
    [(OptionType::BlockSize, "blksize"), (OptionType::TransferSize, "tsize"), (OptionType::Timeout, "timeout"), (OptionType::Windowsize, "windowsize")]
}
const OPT_VALUES: [usize; 5] = [0, 1, 65464, 1 << 32, usize::MAX];

fn strings() -> Vec<String> {
    vec!["".into(), "a".into(), "octet".into(), "é✓/dir\\x y".into(), "x".repeat(600)]
}

fn all_options() -> Vec<(TransferOption, (Vec<u8>, Vec<u8>))> {
    let mut v = vec![];
    for (t, name) in opt_types() {
        for val in OPT_VALUES {
            v.push((TransferOption { option: t, value: val }, (name.as_bytes().to_vec(), val.to_string().into_bytes())));
        }
    }
    v
}

fn option_lists(maxlen: usize) -> Vec<(Vec<TransferOption>, Vec<(Vec<u8>, Vec<u8>)>)> {
    let all = all_options();
    let mut out = vec![(vec![], vec![])];
    let mut frontier = out.clone();
    for _ in 0..maxlen {
        let mut next = vec![];
        for (a, b) in &frontier {
            for (o, r) in &all {
                let mut a2 = a.clone();
                a2.push(*o);
                let mut b2 = b.clone();
                b2.push(r.clone());
                next.push((a2, b2));
            }
        }
        out.extend(next.iter().cloned());
        frontier = next;
    }
    out
}

fn c11_one(c: &mut Counters, p: &Packet, r: &RPacket, what: &str) {
    c.executions += 1;
    c.states += 1;
    c.transitions += 2;
    c.nontrivial += 1;
    let expect = rc::encode(r);
    let res = catch_unwind(AssertUnwindSafe(|| {
        let bytes = match p.serialize() {
            Ok(b) => b,
            Err(e) => return Err(("encode-fails".to_string(), format!("serialize failed: {e}"))),
        };
        if bytes != expect {
            return Err(("layout".to_string(), format!("wire layout differs: got {} expected {}", hex(&bytes[..bytes.len().min(80)]), hex(&expect[..expect.len().min(80)]))));
        }
        match Packet::deserialize(&bytes) {
            Ok(p2) => {
                if &p2 != p {
                    return Err(("roundtrip".to_string(), format!("decode(encode(p)) = {:?} != p", p2)));
                }
            }
            Err(e) => return Err(("roundtrip".to_string(), format!("decode(encode(p)) failed: {e}"))),
        }
        match rc::decode(&bytes) {
            Ok(r2) if &r2 == r => Ok(()),
            other => Err(("layout".to_string(), format!("independent decoder reads {:?}", other.map(|_| "different fields")))),
        }
    }));
    let v = match res {
        Err(_) => Some(("panic".to_string(), format!("panic: {}", last_panic()))),
        Ok(Err(e)) => Some(e),
        Ok(Ok(())) => None,
    };
    if let Some((clause, msg)) = v {
        let kind = match r {
            RPacket::Rrq { .. } => "RRQ",
            RPacket::Wrq { .. } => "WRQ",
            RPacket::Data { .. } => "DATA",
            RPacket::Ack(_) => "ACK",
            RPacket::Error { .. } => "ERROR",
            RPacket::Oack(_) => "OACK",
        };
        c.violations.push(Violation {
            property: "C11".into(),
            clause,
            facts: facts(&[("kind", json!(kind))]),
            what: format!("{what}: {msg}"),
            replay: json!({"engine": "e3_codec", "check": "C11", "packet": what, "expected_hex": hex(&expect[..expect.len().min(200)])}),
            weight: expect.len() as u64,
        });
        if c.violations.len() > 2000 {
            c.trim_violations(3);
        }
    }
}

pub fn c11_cell(spec: &Value) -> Value {
    let mut c = Counters::default();
    let maxopts = spec["maxopts"].as_u64().unwrap_or(2) as usize;
    match spec["family"].as_str().unwrap_or("") {
        "requests" => {
            let write = spec["write"].as_bool().unwrap();
            let si = spec["filename"].as_u64().unwrap() as usize;
            let ss = strings();
            let lists = option_lists(maxopts);
            let filename = &ss[si];
            for mode in &ss {
                for (ol, rl) in &lists {
                    let (p, r) = if write {
                        (Packet::Wrq { filename: filename.clone(), mode: mode.clone(), options: ol.clone() }, RPacket::Wrq { filename: filename.as_bytes().to_vec(), mode: mode.as_bytes().to_vec(), options: rl.clone() })
                    } else {
                        (Packet::Rrq { filename: filename.clone(), mode: mode.clone(), options: ol.clone() }, RPacket::Rrq { filename: filename.as_bytes().to_vec(), mode: mode.as_bytes().to_vec(), options: rl.clone() })
                    };
                    c11_one(&mut c, &p, &r, &format!("{}(filename#{si}, mode {:?}, {} options)", if write { "WRQ" } else { "RRQ" }, &mode[..mode.len().min(8)], ol.len()));
                }
            }
            c.samples.push(json!({"family": "requests", "write": write, "filename": &filename[..filename.len().min(20)], "modes": ss.len(), "option_lists": lists.len()}));
        }
        "manyopts" => {
            // long option lists (the list is not bounded by any RFC; a request of 60 short options still fits 512 octets)
            let all = all_options();
            for n in (0..=70usize).chain([100, 200, 1000]) {
                let ol: Vec<TransferOption> = (0..n).map(|i| all[(i * 7 + 1) % all.len()].0).collect();
                let rl: Vec<(Vec<u8>, Vec<u8>)> = (0..n).map(|i| all[(i * 7 + 1) % all.len()].1.clone()).collect();
                for kind in 0..3 {
                    let (p, r) = match kind {
                        0 => (Packet::Rrq { filename: "f".into(), mode: "octet".into(), options: ol.clone() }, RPacket::Rrq { filename: b"f".to_vec(), mode: b"octet".to_vec(), options: rl.clone() }),
                        1 => (Packet::Wrq { filename: "f".into(), mode: "octet".into(), options: ol.clone() }, RPacket::Wrq { filename: b"f".to_vec(), mode: b"octet".to_vec(), options: rl.clone() }),
                        _ => (Packet::Oack(ol.clone()), RPacket::Oack(rl.clone())),
                    };
                    c11_one(&mut c, &p, &r, &format!("{} with {n} options", ["RRQ", "WRQ", "OACK"][kind]));
                }
            }
            c.samples.push(json!({"family": "manyopts", "lengths": "0..=70, 100, 200, 1000 options"}));
        }
        "oack" => {
            for (ol, rl) in option_lists(maxopts.max(3)) {
                c11_one(&mut c, &Packet::Oack(ol.clone()), &RPacket::Oack(rl), &format!("OACK({:?})", ol));
            }
            c.samples.push(json!({"family": "oack", "example": "OACK(blksize=65464,tsize=18446744073709551615)"}));
        }
        "data" => {
            let lo = spec["lo"].as_u64().unwrap();
            let hi = spec["hi"].as_u64().unwrap();
            let big: Vec<u8> = content(65464, 7);
            for b in lo..hi {
                let b = b as u16;
                let lens: &[usize] = if matches!(b, 0 | 1 | 255 | 256 | 32767 | 32768 | 65534 | 65535) { &[0, 1, 2, 511, 512, 513, 1428, 65464] } else { &[0, 1, 512] };
                for &l in lens {
                    let d = big[..l].to_vec();
                    c11_one(&mut c, &Packet::Data { block_num: b, data: d.clone() }, &RPacket::Data { block: b, data: d }, &format!("DATA({b}, {l} bytes)"));
                }
                c11_one(&mut c, &Packet::Ack(b), &RPacket::Ack(b), &format!("ACK({b})"));
            }
            c.samples.push(json!({"family": "data+ack", "blocks": [lo, hi]}));
        }
        "error" => {
            for code in 0..8u16 {
                for m in strings() {
                    let ec = ErrorCode::from_u16(code).unwrap();
                    c11_one(&mut c, &Packet::Error { code: ec, msg: m.clone() }, &RPacket::Error { code, msg: m.as_bytes().to_vec() }, &format!("ERROR({code}, {:?})", &m[..m.len().min(8)]));
                }
            }
            c.samples.push(json!({"family": "error", "codes": "0..7", "messages": strings().len()}));
        }
        "enums" => {
            // Opcode / ErrorCode conversions over the whole 16-bit range
            for v in 0..=65535u16 {
                c.executions += 1;
                c.states += 1;
                c.transitions += 2;
                let r = catch_unwind(|| (Opcode::from_u16(v).map(|o| o.as_bytes()), ErrorCode::from_u16(v).map(|e| e.as_bytes())));
                let mut bad: Option<(String, String)> = None;
                match r {
                    Err(_) => bad = Some(("panic".into(), format!("from_u16({v}) panicked"))),
                    Ok((o, e)) => {
                        let op_ok = (1..=6).contains(&v);
                        let ec_ok = v <= 7;
                        match o {
                            Ok(bytes) => {
                                if !op_ok {
                                    bad = Some(("opcode-range".into(), format!("Opcode::from_u16({v}) accepted")));
                                } else if bytes != v.to_be_bytes() {
                                    bad = Some(("opcode-inverse".into(), format!("Opcode::from_u16({v}).as_bytes() = {:?}", bytes)));
                                }
                            }
                            Err(_) => {
                                if op_ok {
                                    bad = Some(("opcode-range".into(), format!("Opcode::from_u16({v}) rejected")));
                                }
                            }
                        }
                        match e {
                            Ok(bytes) => {
                                if !ec_ok {
                                    bad = Some(("errorcode-range".into(), format!("ErrorCode::from_u16({v}) accepted")));
                                } else if bytes != v.to_be_bytes() {
                                    bad = Some(("errorcode-inverse".into(), format!("ErrorCode::from_u16({v}).as_bytes() = {:?}", bytes)));
                                }
                            }
                            Err(_) => {
                                if ec_ok {
                                    bad = Some(("errorcode-range".into(), format!("ErrorCode::from_u16({v}) rejected")));
                                }
                            }
                        }
                        if op_ok || ec_ok {
                            c.nontrivial += 1;
                        }
                    }
                }
                if let Some((clause, what)) = bad {
                    c.violations.push(Violation { property: "C11".into(), clause, facts: facts(&[("kind", json!("enum"))]), what, replay: json!({"engine": "e3_codec", "check": "C11", "u16": v}), weight: 1 });
                }
            }
            // OptionType names (FromStr/as_str inverse)
            for (t, name) in opt_types() {
                c.executions += 1;
                c.transitions += 2;
                let ok = t.as_str() == name && name.parse::<OptionType>() == Ok(t);
                if !ok {
                    c.violations.push(Violation { property: "C11".into(), clause: "option-name".into(), facts: facts(&[("kind", json!("enum"))]), what: format!("option name {name} does not round-trip"), replay: json!({"engine": "e3_codec", "check": "C11", "option": name}), weight: 1 });
                }
            }
            // the RFC's own assignment of numbers to NAMES (RFC 1350 section 5 and appendix, RFC 2347): a consistent
            // permutation of two variants would survive every inverse / round-trip test above
            let rfc_errors: [(ErrorCode, u16, &str); 8] = [
                (ErrorCode::NotDefined, 0, "NotDefined"),
                (ErrorCode::FileNotFound, 1, "FileNotFound"),
                (ErrorCode::AccessViolation, 2, "AccessViolation"),
                (ErrorCode::DiskFull, 3, "DiskFull"),
                (ErrorCode::IllegalOperation, 4, "IllegalOperation"),
                (ErrorCode::UnknownId, 5, "UnknownId"),
                (ErrorCode::FileExists, 6, "FileExists"),
                (ErrorCode::NoSuchUser, 7, "NoSuchUser"),
            ];
            for (ec, n, name) in rfc_errors {
                c.executions += 1;
                c.transitions += 3;
                let wire = Packet::Error { code: ec, msg: "m".into() }.serialize().ok();
                let ok = ec.as_bytes() == n.to_be_bytes() && ErrorCode::from_u16(n) == Ok(ec) && wire.as_ref().map(|w| w.len() >= 4 && w[..4] == [0, 5, (n >> 8) as u8, n as u8]).unwrap_or(false);
                if !ok {
                    c.violations.push(Violation { property: "C11".into(), clause: "errorcode-rfc-number".into(), facts: facts(&[("kind", json!("enum"))]), what: format!("ErrorCode::{name} must be error number {n} on the wire (RFC 1350): as_bytes() = {:?}, from_u16({n}) = {:?}, ERROR packet starts with {:?}", ec.as_bytes(), ErrorCode::from_u16(n), wire.map(|w| w[..w.len().min(4)].to_vec())), replay: json!({"engine": "e3_codec", "check": "C11", "u16": n}), weight: 1 });
                }
            }
            let rfc_opcodes: [(Opcode, u16, &str); 6] = [(Opcode::Rrq, 1, "Rrq"), (Opcode::Wrq, 2, "Wrq"), (Opcode::Data, 3, "Data"), (Opcode::Ack, 4, "Ack"), (Opcode::Error, 5, "Error"), (Opcode::Oack, 6, "Oack")];
            for (op, n, name) in rfc_opcodes {
                c.executions += 1;
                c.transitions += 2;
                let named = op.as_bytes();
                let back = Opcode::from_u16(n).map(|o| o.as_bytes());
                if named != n.to_be_bytes() || back != Ok(n.to_be_bytes()) {
                    c.violations.push(Violation { property: "C11".into(), clause: "opcode-rfc-number".into(), facts: facts(&[("kind", json!("enum"))]), what: format!("Opcode::{name} must be opcode {n} (RFC 1350/2347): as_bytes() = {:?}, from_u16({n}).as_bytes() = {:?}", named, back), replay: json!({"engine": "e3_codec", "check": "C11", "u16": n}), weight: 1 });
                }
            }
            c.samples.push(json!({"family": "enums", "range": "0..=65535 through Opcode::from_u16 and ErrorCode::from_u16"}));
        }
        other => return json!({"machinery_error": format!("unknown C11 family {other}")}),
    }
    c.trace_hashes.insert(fnv64(spec.to_string().as_bytes()));
    c.trim_violations(3);
    c.to_json()
}

pub fn c11_check(tier: Tier) -> Outcome {
    let maxopts = if tier == Tier::Quick { 2 } else { 3 };
    let mut cells = vec![json!({"family": "enums"}), json!({"family": "error"}), json!({"family": "oack", "maxopts": 3}), json!({"family": "manyopts"})];
    for w in [false, true] {
        for f in 0..strings().len() {
            cells.push(json!({"family": "requests", "write": w, "filename": f, "maxopts": maxopts}));
        }
    }
    for k in 0..32u64 {
        cells.push(json!({"family": "data", "lo": k * 2048, "hi": (k + 1) * 2048}));
    }
    let n = cells.len();
    let res = run_cells("c11", cells, &crate::pool_opts(tier));
    let mut out = Outcome::new("C11", "model_checking");
    out.absorb(res, n);
    out.rule = format!("grammar-generated Packet values: requests = 5 filenames x 5 modes x all option lists of length <= {maxopts} over 4 option types x 5 values (0,1,65464,2^32,2^64-1) incl. duplicates, for RRQ and WRQ; OACK with all lists <= 3; RRQ/WRQ/OACK with 0..=70, 100, 200 and 1000 options; DATA for all 65536 block numbers x payload lengths (0,1,512; 8 lengths up to 65464 at boundary blocks); ACK for all 65536; ERROR 8 codes x 5 messages; Opcode/ErrorCode conversions over all 65536 values and every named variant against the RFC's number for that name. Oracle: byte-for-byte equality with an independent RFC encoder, decode(encode(p)) == p, independent decoder reads the same fields. Every generated value is non-trivial (distinct by construction).");
    out.assumptions = vec!["strings range over a representative set (empty, 1 char, ASCII, multi-byte UTF-8 with separators and a space, 600 bytes); they contain no NUL as the statement requires".into()];
    out
}

pub fn replay(v: &Value) -> String {
    if let Some(h) = v["input_hex"].as_str() {
        let input = unhex(h);
        let (class, viol) = judge_decode(&input);
        return format!("input {} ({} bytes): outcome class {} -> {:?}", h, input.len(), class, viol);
    }
    format!("C11 replay: re-run `./check C11 quick`; packet = {}", v["packet"])
}
