//! E1 checks built on Mode A (adversarial answers): C01, C02, C07, C08, C16 grids and the generic cell runner.

use crate::modea::{self, Role, XCfg};
use crate::monitors;
use crate::sim::*;
use crate::util::*;
use crate::{Outcome, Tier};
use serde_json::{json, Value};
use std::collections::BTreeSet;

pub fn base_cfg(role: Role, len: usize, blk: usize, ws: u16) -> XCfg {
    XCfg { role, blk, ws, len, handshake: false, timeout_s: 5, repeat: 1, clean: true, alpha: 0, silence_after: None, error_at: None, ack_every_copy: false, snapshot_tail: false, noise: None, noise_resume: false, send_fail_at: None, error_latin1: false, error_code: 0 }
}

pub fn cell_spec(cfg: &XCfg, bound: u64, max_exec: u64, props: &[&str]) -> Value {
    json!({"mode": "A", "cfg": cfg.to_json(), "bound": bound, "max_exec": max_exec, "props": props})
}

/// Runs one Mode A exploration cell.
pub fn modea_cell(spec: &Value) -> Value {
    let cfg = XCfg::from_json(&spec["cfg"]);
    let bound = spec["bound"].as_u64().unwrap_or(0);
    let max_exec = spec["max_exec"].as_u64().unwrap_or(2_000_000);
    let props: Vec<String> = spec["props"].as_array().map(|a| a.iter().map(|x| x.as_str().unwrap_or("").to_string()).collect()).unwrap_or_default();
    let mut c = Counters::default();
    let mut hashes: BTreeSet<u64> = BTreeSet::new();
    let mut n: u64 = 0;
    let mut reruns = 0u64;
    let mut viol_reruns = 0u64;
    let mut sample: Option<Value> = None;
    let mut unfinished = 0u64;
    let stats = explore(bound, max_exec, &mut |prefix: &[u16]| {
        let tr = modea::run(&cfg, prefix);
        n += 1;
        let h = trace_hash(&tr.events);
        let fresh = hashes.insert(h);
        if fresh && tr.events.iter().any(|e| matches!(e, Event::Recv { .. })) {
            c.nontrivial += 1;
        }
        if let Some(e) = &tr.replay_error {
            c.machinery_errors.push(format!("replay divergence in {}: {e}", cfg.brief()));
        }
        if tr.stuck {
            c.machinery_errors.push(format!("worker neither receives nor exits (real-time backstop) in {} choices {:?}", cfg.brief(), prefix));
        }
        let (vs, summ) = monitors::check_all_s(&tr);
        if !summ.finished {
            unfinished += 1;
        }
        let relevant: Vec<&monitors::MViol> = vs.iter().filter(|v| v.property_hint.iter().any(|p| props.iter().any(|q| q == p)) || v.clause.starts_with("MACHINERY")).collect();
        // determinism: every 1000th execution and (a bounded number of) violating ones are replayed and compared
        let rerun = n % 1000 == 1 || (!relevant.is_empty() && viol_reruns < 20);
        if rerun {
            if !relevant.is_empty() {
                viol_reruns += 1;
            }
            let choices: Vec<u16> = tr.log.iter().map(|r| r.chosen).collect();
            let tr2 = modea::run(&cfg, &choices);
            reruns += 1;
            if trace_hash(&tr2.events) != h {
                c.machinery_errors.push(format!("nondeterminism: replay of {} choices {:?} produced a different trace", cfg.brief(), choices));
            }
        }
        let choices: Vec<u16> = tr.log.iter().map(|r| r.chosen).collect();
        let devs: Vec<String> = tr.log.iter().enumerate().filter(|(_, r)| r.costs[r.chosen as usize] > 0).map(|(i, r)| format!("#{i}:{}", r.label)).collect();
        for v in relevant {
            if v.clause.starts_with("MACHINERY") {
                c.machinery_errors.push(format!("{} in {}", v.what, cfg.brief()));
                continue;
            }
            for p in &v.property_hint {
                if props.iter().any(|q| q == p) {
                    let mut f = v.facts.clone();
                    f.insert("role".into(), json!(if cfg.role == Role::Sender { "sender" } else { "receiver" }));
                    c.violations.push(Violation {
                        property: p.to_string(),
                        clause: v.clause.clone(),
                        facts: f,
                        what: format!("[{}] deviations {:?}: {}", cfg.brief(), devs, v.what),
                        replay: json!({"engine": "modea", "cfg": cfg.to_json(), "choices": choices, "trace": describe_events(&tr.events, 60)}),
                        weight: devs.len() as u64 * 10_000 + choices.len() as u64 * 10 + cfg.ws.min(9) as u64,
                    });
                }
            }
        }
        if c.violations.len() > 600 {
            c.trim_violations(2);
        }
        if sample.is_none() && prefix.len() >= 1 && n > 3 {
            sample = Some(json!({"cfg": cfg.brief(), "choices": choices, "deviations": devs, "trace": describe_events(&tr.events, 24)}));
        }
        let answers = tr.events.iter().filter(|e| matches!(e, Event::Recv { .. })).count() as u64;
        (tr.log, answers)
    });
    c.executions = stats.executions;
    c.states = stats.executions;
    c.transitions = stats.transitions;
    c.determinism_reruns = reruns;
    if stats.capped {
        c.capped.push(format!("execution cap {} hit in {} (deviation level {} completed)", max_exec, cfg.brief(), stats.max_dev_completed));
    }
    c.add_extra("distinct_traces", hashes.len() as u64);
    c.add_extra("executions_ending_unfinished", unfinished);
    if spec.get("fsize").is_some() {
        c.add_extra("write_error_executions_unfinished", unfinished);
    }
    for h in hashes.iter().take(32) {
        c.trace_hashes.insert(*h);
    }
    if let Some(s) = sample {
        c.samples.push(s);
    } else {
        c.samples.push(json!({"cfg": cfg.brief(), "choices": [], "note": "fault-free run only"}));
    }
    c.trim_violations(2);
    c.to_json()
}

pub fn replay(v: &Value) -> String {
    let cfg = XCfg::from_json(&v["cfg"]);
    let choices: Vec<u16> = v["choices"].as_array().map(|a| a.iter().map(|x| x.as_u64().unwrap_or(0) as u16).collect()).unwrap_or_default();
    let a = modea::replay_text(&cfg, &choices);
    let b = modea::replay_text(&cfg, &choices);
    format!("{a}\nsecond replay identical: {}", a == b)
}

fn lens_g1(blk: usize, ws: usize) -> Vec<usize> {
    let mut v = vec![0, 1, blk - 1, blk, blk + 1, ws * blk - 1, ws * blk, ws * blk + 1, (ws + 1) * blk, 3 * ws * blk + 1];
    v.sort();
    v.dedup();
    v
}

fn finish(out: &mut Outcome, engine: &str, cells: Vec<Value>, tier: Tier) {
    let n = cells.len();
    let res = run_cells(engine, cells, &crate::pool_opts(tier));
    out.absorb(res, n);
}

const MAXE: u64 = 3_000_000;
/// execution cap of the deepest thorough cells (reported as capped, never as exhaustive, if reached)
const DEEP: u64 = 40_000_000;

// ---------------------------------------------------------------- C01 (Mode A part)

pub fn c01_cells(tier: Tier) -> Vec<Value> {
    let p = ["C01"];
    let mut cells = vec![];
    for blk in [8usize, 9, 512] {
        for ws in 1..=4u16 {
            for hs in [false, true] {
                for len in lens_g1(blk, ws as usize) {
                    let mut cfg = base_cfg(Role::Sender, len, blk, ws);
                    cfg.handshake = hs;
                    let d = match tier {
                        Tier::Quick => if blk == 8 && !hs { 2 } else { 1 },
                        Tier::Thorough => if blk == 8 && ws <= 2 && !hs && len <= 2 * ws as usize * blk + 1 { 4 } else if blk == 8 { 3 } else { 2 },
                    };
                    cells.push(cell_spec(&cfg, d, DEEP, &p));
                }
            }
        }
    }
    // boundary grid G2: largest block size; large windows
    for ws in [1u16, 2] {
        for len in [65463usize, 65464, 65465, 2 * 65464 + 1] {
            cells.push(cell_spec(&base_cfg(Role::Sender, len, 65464, ws), 1, MAXE, &p));
        }
    }
    // socket errors: the n-th datagram handed to the socket is refused — whatever is emitted before and after must still
    // be the right slice under the right number
    for ws in [1u16, 3] {
        let len = 2 * ws as usize * 8 + 3;
        for n in 0..(2 * ws as usize + 3) {
            for partial in [false, true] {
                let mut cfg = base_cfg(Role::Sender, len, 8, ws);
                cfg.send_fail_at = Some(n);
                cfg.alpha = if partial { 2 } else { 3 };
                cells.push(cell_spec(&cfg, if partial { 1 } else { 0 }, MAXE, &p));
            }
        }
    }
    // duplicate-packets mode: every copy must carry the right slice under the right number
    for ws in [1u16, 2, 3] {
        for len in [3usize, 2 * ws as usize * 8 + 3] {
            let mut cfg = base_cfg(Role::Sender, len, 8, ws);
            cfg.repeat = 2;
            cfg.alpha = 2;
            cells.push(cell_spec(&cfg, 1, MAXE, &p));
        }
    }
    let big_ws: &[u16] = if tier == Tier::Quick { &[8, 64] } else { &[8, 64, 65534, 65535] };
    for &ws in big_ws {
        let w = ws as usize;
        for len in [5 * 8, w * 8 - 1, w * 8, w * 8 + 1, (w + 1) * 8] {
            let mut cfg = base_cfg(Role::Sender, len, 8, ws);
            cfg.alpha = 2;
            cells.push(cell_spec(&cfg, 1, MAXE, &p));
        }
    }
    // one >65535-block file per window size, fault-free (faults at the wrap belong to C15)
    let wrap_ws: &[u16] = if tier == Tier::Quick { &[64] } else { &[4, 64] };
    for &ws in wrap_ws {
        let mut cfg = base_cfg(Role::Sender, 65537 * 8 + 3, 8, ws);
        cfg.alpha = 3;
        cells.push(cell_spec(&cfg, 0, MAXE, &p));
    }
    cells
}

// ---------------------------------------------------------------- C02 (Mode A part)

pub fn c02_cells(tier: Tier) -> Vec<Value> {
    let p = ["C02"];
    let mut cells = vec![];
    for blk in [8usize, 9, 512] {
        for ws in 1..=4u16 {
            for len in lens_g1(blk, ws as usize) {
                let cfg = base_cfg(Role::Receiver, len, blk, ws);
                let d = match tier {
                    Tier::Quick => if blk == 8 { 2 } else { 1 },
                    Tier::Thorough => if blk == 8 && ws <= 2 && len <= 2 * ws as usize * blk + 1 { 4 } else if blk == 8 { 3 } else { 2 },
                };
                cells.push(cell_spec(&cfg, d, DEEP, &p));
            }
        }
    }
    for ws in [1u16, 2] {
        for len in [65463usize, 65464, 65465, 2 * 65464 + 1] {
            cells.push(cell_spec(&base_cfg(Role::Receiver, len, 65464, ws), 1, MAXE, &p));
        }
    }
    let big_ws: &[u16] = if tier == Tier::Quick { &[8, 64] } else { &[8, 64, 65534, 65535] };
    for &ws in big_ws {
        let w = ws as usize;
        let lens: Vec<usize> = if w > 1000 { vec![5 * 8, 20 * 8 + 1] } else { vec![5 * 8, w * 8 - 1, w * 8, w * 8 + 1, (w + 1) * 8] };
        for len in lens {
            let mut cfg = base_cfg(Role::Receiver, len, 8, ws);
            cfg.alpha = 2;
            cells.push(cell_spec(&cfg, 1, MAXE, &p));
        }
    }
    // socket errors on the n-th ACK
    for ws in [1u16, 2] {
        let len = 3 * ws as usize * 8 + 3;
        for n in 0..5usize {
            let mut cfg = base_cfg(Role::Receiver, len, 8, ws);
            cfg.send_fail_at = Some(n);
            cfg.alpha = 2;
            cells.push(cell_spec(&cfg, 1, MAXE, &p));
        }
    }
    let wrap_ws: &[u16] = if tier == Tier::Quick { &[64] } else { &[4, 64] };
    for &ws in wrap_ws {
        let mut cfg = base_cfg(Role::Receiver, 65537 * 8 + 3, 8, ws);
        cfg.alpha = 3;
        cfg.snapshot_tail = true;
        cells.push(cell_spec(&cfg, 0, MAXE, &p));
    }
    cells
}

// ---------------------------------------------------------------- C07

pub fn c07_cells(tier: Tier) -> Vec<Value> {
    let p = ["C07"];
    let mut cells = vec![];
    let blk = 8usize;
    for ws in 1..=4u16 {
        for len in lens_g1(blk, ws as usize) {
            for role in [Role::Sender, Role::Receiver] {
                for hs in [false, true] {
                    if role == Role::Receiver && hs {
                        continue;
                    }
                    let mut cfg = base_cfg(role, len, blk, ws);
                    cfg.handshake = hs;
                    let d = match tier {
                        Tier::Quick => if hs { 1 } else { 2 },
                        Tier::Thorough => if ws <= 2 && !hs && len <= 2 * ws as usize * blk + 1 { 4 } else { 3 },
                    };
                    cells.push(cell_spec(&cfg, d, DEEP, &p));
                    // silence family: all-Timeout from every point of the fault-free run;
                    // error family: ERROR at every point (handshake included)
                    let points = (len / blk + 1) / ws as usize + 3;
                    for k in 0..=points {
                        let mut c2 = cfg.clone();
                        c2.alpha = 3;
                        c2.silence_after = Some(k);
                        cells.push(cell_spec(&c2, 0, MAXE, &p));
                        let mut c3 = cfg.clone();
                        c3.alpha = 3;
                        c3.error_at = Some(k);
                        cells.push(cell_spec(&c3, 0, MAXE, &p));
                        if !hs || tier == Tier::Thorough {
                            // the same with an ERROR whose (NUL-terminated) message is not UTF-8
                            let mut c3b = c3.clone();
                            c3b.error_latin1 = true;
                            cells.push(cell_spec(&c3b, 0, MAXE, &p));
                        }
                        if tier == Tier::Thorough {
                            // one deviation before the silence / the error
                            let mut c4 = cfg.clone();
                            c4.silence_after = Some(k);
                            cells.push(cell_spec(&c4, 1, MAXE, &p));
                            let mut c5 = cfg.clone();
                            c5.error_at = Some(k);
                            cells.push(cell_spec(&c5, 1, MAXE, &p));
                        }
                    }
                }
            }
        }
    }
    // every error number 1..7 (0 is used above) at every point of a short lock-step and a windowed transfer, both roles
    for role in [Role::Sender, Role::Receiver] {
        for ws in [1u16, 3] {
            let len = 2 * ws as usize * blk + 3;
            let points = (len / blk + 1) / ws as usize + 3;
            for code in 1..=7u16 {
                for k in 0..=points {
                    let mut cfg = base_cfg(role, len, blk, ws);
                    cfg.alpha = 3;
                    cfg.error_at = Some(k);
                    cfg.error_code = code;
                    cells.push(cell_spec(&cfg, 0, MAXE, &p));
                }
            }
        }
    }
    // noise family: k = 0..=9 non-progress answers of one kind (duplicate, future/gap, stray, undecodable) at the start or
    // in the middle of a transfer, then silence: the retry counter must still bound the wait
    for role in [Role::Sender, Role::Receiver] {
        for ws in [1u16, 3] {
            let len = 2 * ws as usize * blk + 3;
            for at in [0usize, 1] {
                for kind in 0..4u8 {
                    for count in 0..=9usize {
                        let mut cfg = base_cfg(role, len, blk, ws);
                        cfg.alpha = 3;
                        cfg.noise = Some((at, kind, count));
                        cells.push(cell_spec(&cfg, 0, MAXE, &p));
                    }
                }
            }
        }
    }
    cells
}

// ---------------------------------------------------------------- C08

pub fn c08_cells(tier: Tier) -> Vec<Value> {
    let p = ["C08"];
    let mut cells = vec![];
    let blk = 8usize;
    let wss: &[u16] = &[1, 2, 3, 4, 8];
    for &ws in wss {
        let w = ws as usize;
        let mut lens = vec![1, blk, w * blk - 1, w * blk, w * blk + 1, (w + 1) * blk, 2 * w * blk + 1, 3 * w * blk + 1];
        lens.sort();
        lens.dedup();
        for len in lens {
            for hs in [false, true] {
                if hs && (tier == Tier::Quick || len != w * blk + 1) {
                    continue;
                }
                let mut cfg = base_cfg(Role::Sender, len, blk, ws);
                cfg.alpha = 1; // delay dimension
                cfg.handshake = hs;
                let d = match tier {
                    Tier::Quick => if ws <= 2 && len <= 2 * w * blk + 1 { 2 } else { 1 },
                    Tier::Thorough => if ws <= 2 && !hs && len <= 2 * w * blk + 1 { 3 } else { 2 },
                };
                cells.push(cell_spec(&cfg, d, DEEP, &p));
            }
            // receiver side (W4)
            let cfg = base_cfg(Role::Receiver, len, blk, ws);
            cells.push(cell_spec(&cfg, if tier == Tier::Quick { 1 } else if ws <= 2 { 3 } else { 2 }, DEEP, &p));
        }
    }
    // k = 1..9 duplicate (kind 0) or future (kind 1) ACKs in a row, then the conformant answers resume: no retransmission
    // in between and the transfer completes (a duplicate ACK is never a reason to give up, however many arrive)
    for ws in [1u16, 3, 8] {
        let len = 2 * ws as usize * blk + 3;
        for at in [1usize, 2] {
            for kind in [0u8, 1] {
                for count in 1..=9usize {
                    let mut cfg = base_cfg(Role::Sender, len, blk, ws);
                    cfg.alpha = 3;
                    cfg.noise = Some((at, kind, count));
                    cfg.noise_resume = true;
                    cells.push(cell_spec(&cfg, 0, MAXE, &p));
                }
            }
        }
    }
    // a burst of duplicate copies that outlasts the timeout, followed by a duplicate ACK (timer counts from the END of a transmission)
    {
        let mut cfg = base_cfg(Role::Sender, 64 * blk + 3, blk, 64);
        cfg.repeat = 17;
        cfg.timeout_s = 1;
        cfg.alpha = 5;
        cells.push(cell_spec(&cfg, 1, MAXE, &p));
    }
    // boundary window sizes
    for ws in [65534u16, 65535] {
        // a short file (window never full) and one that fills the whole window
        let lens: Vec<usize> = if tier == Tier::Quick { vec![5 * 8, ws as usize * 8 + 1] } else { vec![5 * 8, 5 * 8 + 3, ws as usize * 8 - 1, ws as usize * 8 + 1, (ws as usize + 2) * 8] };
        for len in lens {
            let mut cfg = base_cfg(Role::Sender, len, blk, ws);
            cfg.alpha = 2;
            cells.push(cell_spec(&cfg, 1, MAXE, &p));
        }
        let cfg = base_cfg(Role::Receiver, 5 * 8 + 1, blk, ws);
        cells.push(cell_spec(&cfg, 1, MAXE, &p));
    }
    cells
}

// ---------------------------------------------------------------- C16 (Mode A part)

pub fn c16_cells(tier: Tier) -> Vec<Value> {
    let p = ["C16"];
    let mut cells = vec![];
    let blk = 8usize;
    for n in 0..=3u8 {
        for ws in 1..=3u16 {
            let w = ws as usize;
            for len in [0, blk - 1, w * blk, w * blk + 1, 2 * w * blk + 3] {
                for role in [Role::Sender, Role::Receiver] {
                    let mut cfg = base_cfg(role, len, blk, ws);
                    cfg.repeat = n + 1;
                    cfg.alpha = 2;
                    cells.push(cell_spec(&cfg, if tier == Tier::Quick && n >= 2 { 0 } else if tier == Tier::Thorough && n <= 1 { 2 } else { 1 }, MAXE, &p));
                    if n > 0 {
                        let mut c2 = cfg.clone();
                        c2.ack_every_copy = true;
                        c2.alpha = 3;
                        cells.push(cell_spec(&c2, 0, MAXE, &p));
                    }
                }
            }
        }
    }
    // a burst of copies long enough to reach the timeout (N x windowsize x 1 ms >= 1 s): a duplicate ACK right after it
    // must still not trigger a retransmission (the timer counts from the END of the transmission)
    {
        let mut cfg = base_cfg(Role::Sender, 64 * blk + 3, blk, 64);
        cfg.repeat = 17;
        cfg.timeout_s = 1;
        cfg.alpha = 5;
        cells.push(cell_spec(&cfg, 1, MAXE, &p));
    }
    // peers that answer every copy, for N at and beyond the retry budget
    for n in [5u8, 6, 7, 12] {
        for role in [Role::Sender, Role::Receiver] {
            let mut cfg = base_cfg(role, 2 * blk + 3, blk, 1);
            cfg.repeat = n + 1;
            cfg.ack_every_copy = true;
            cfg.alpha = 3;
            cells.push(cell_spec(&cfg, 0, MAXE, &p));
        }
    }
    // N = 254 on one 2-block transfer per role (each copy is followed by a real 1 ms pause in the subject), with a peer that
    // answers once and with one that answers every copy
    for role in [Role::Sender, Role::Receiver] {
        for every in [false, true] {
            if every && role == Role::Receiver {
                continue; // every duplicate DATA is re-acknowledged N+1 times: 254 x 255 real milliseconds
            }
            let mut cfg = base_cfg(role, blk + 3, blk, 1);
            cfg.repeat = 255;
            cfg.alpha = 3;
            cfg.ack_every_copy = every;
            cells.push(cell_spec(&cfg, 0, MAXE, &p));
        }
    }
    cells
}

pub fn modea_rule(name: &str) -> String {
    format!("E1 Mode A ({name}): the real Worker thread runs on a simulated Socket and virtual clock; at every receive the explorer chooses from an adversarial answer alphabet (conformant answer = choice 0; partial/duplicate/stale/future/bogus ACKs or premature-short/duplicate/gap/old/oversize DATA, stray ACK/DATA/OACK, undecodable datagrams, ERROR, timeout; for C08 each with delays 0, T/2, T-1ns). All answer sequences with at most D deviations are enumerated by re-execution, D iterated 0,1,2,(3), executions run to completion. states = executions = distinct choice-tree nodes, transitions = answers delivered to the real worker, non-trivial = executions whose full send/receive trace is distinct from all earlier ones in the same cell.")
}

pub fn c07_check(tier: Tier) -> Outcome {
    let mut out = Outcome::new("C07", "model_checking");
    // the wall-clock cells of the real-Server part run concurrently with the simulated part
    // the bundled client is a transfer too: its peer vanishes for good in the middle of a download / an upload (relay that
    // lets nothing through any more): it must give up after a bounded number of 1-second timeouts
    let mut vanish = vec![];
    for single in [false, true] {
        let mut s = crate::loopback::SrvCfg::basic();
        s.single = single;
        s.overwrite = true;
        for upload in [false, true] {
            vanish.push(json!({"srv": s.to_json(), "upload": upload, "drop": 0, "silent_from": if upload { 4 } else { 5 }, "property": "C07", "len": 1300}));
        }
    }
    let nvanish = vanish.len();
    let hv = std::thread::spawn(move || run_cells("c14_relay", vanish, &crate::pool_opts(Tier::Quick)));
    let e2 = crate::c07_e2::cells(tier == Tier::Thorough);
    let ne2 = e2.len();
    let h = std::thread::spawn(move || run_cells("c07_e2", e2, &crate::pool_opts(Tier::Quick)));
    finish(&mut out, "modea", c07_cells(tier), tier);
    if let Ok(res) = h.join() {
        out.absorb(res, ne2);
    }
    if let Ok(res) = hv.join() {
        out.absorb(res, nvanish);
    }
    out.rule = format!("{} PLUS the real Server on loopback (both port modes): the peer's ERROR after k = 0..4 steps of a lock-step download, a windowed download and an upload must end the transfer thread at once with nothing emitted afterwards; silence after DATA(1) of a plain RRQ must produce a retransmission after the default 5 s (not earlier, and not never); with timeout=1 a silent peer makes a download and an upload give up within 16 s (wall clock, measured); the bundled client (-t 1) whose server vanishes for good after the first data block returns within 25 s in both directions.", modea_rule("termination monitors T1-T5; plus the silence family = all-Timeout from every point of the fault-free run, the error family = ERROR at every point (handshake included), and the noise family = k = 0..9 non-progress answers of one kind followed by silence"));
    out.assumptions = vec!["the socket read timeout equals the worker timeout, as Server configures it".into(), "bounded retry is accepted up to 16 consecutive timeouts (the statement only says bounded)".into()];
    out
}

pub fn c08_check(tier: Tier) -> Outcome {
    let mut out = Outcome::new("C08", "model_checking");
    // through the real Server (it wires the negotiated interval into worker and socket): a duplicate ACK 0.7 s before a
    // 6-second interval elapses must not trigger a retransmission — wall clock, runs alongside the simulated part
    let mut e2 = vec![];
    for single in [false, true] {
        let mut s = crate::loopback::SrvCfg::basic();
        s.single = single;
        e2.push(json!({"srv": s.to_json(), "family": "interval", "timeout": 6, "write": false, "dup_ack_before_timeout": true, "property": "C08"}));
    }
    let ne2 = e2.len();
    let h = std::thread::spawn(move || run_cells("c09", e2, &crate::pool_opts(Tier::Quick)));
    // two windowed downloads in a row from ONE client endpoint through the real Server (partial ACK of the first window):
    // the acknowledgements of the second transfer must reach the second transfer
    let mut e3 = vec![];
    for single in [false, true] {
        let mut s = crate::loopback::SrvCfg::basic();
        s.single = single;
        e3.push(json!({"srv": s.to_json(), "family": "reuse", "windowed": true, "property": "C08"}));
    }
    let ne3 = e3.len();
    let res3 = run_cells("c07_e2", e3, &crate::pool_opts(Tier::Quick));
    out.absorb(res3, ne3);
    finish(&mut out, "modea", c08_cells(tier), tier);
    if let Ok(res) = h.join() {
        out.absorb(res, ne2);
    }
    if tier == Tier::Thorough {
        // boundary windows again with overflow checks on (debug-build arithmetic)
        let cells: Vec<Value> = c08_cells(Tier::Quick).into_iter().filter(|c| c["cfg"]["ws"].as_u64().unwrap_or(0) >= 65534).collect();
        let n = cells.len();
        let res = crate::run_cells_ovf("modea", cells, tier);
        out.absorb(res, n);
    }
    out.rule = modea_rule("window / retransmission-causality monitors W1-W4 and abort-on-duplicate-ACK; windowsize 1,2,3,4,8 with the delay dimension, 65534/65535 with a reduced alphabet; plus, through the real Server in both port modes, a duplicate ACK 0.7 s before a negotiated 6-second interval elapses (wall clock), and two windowed downloads in a row from one client endpoint");
    out.assumptions = vec!["'retransmission' = a burst containing a block already sent; legal only if virtual time since the previous burst >= timeout or the preceding answer was an in-window ACK that left sent blocks outstanding".into()];
    out
}

pub fn c01_check(tier: Tier) -> Outcome {
    let mut out = Outcome::new("C01", "model_checking");
    finish(&mut out, "modea", c01_cells(tier), tier);
    finish(&mut out, "modeb", crate::e1b_checks::c01_b_cells(tier), tier);
    finish(&mut out, "e2_xfer", crate::e2_xfer::cells(false, tier == Tier::Thorough), tier);
    out.rule = format!("{} PLUS E1 Mode B: the real sending Worker + reference client (4 conformant variants) + faulty network, every placement of up to F faults (drop, duplicate, delay-past-timeout, swap) in either direction and both timer orders, oracle = in-order reassembly at the client is byte-identical when it completes and a prefix otherwise; PLUS E2: downloads from the real Server over real UDP sockets (both port modes, block sizes up to 65464, fault-free and with duplicate / stale ACKs from the client).", modea_rule("slice monitors S1/S2 on every emitted DATA: block k carries exactly file[(k-1)*blk, k*blk), nothing beyond the final block, numbering consecutive mod 65536; grids: len x blksize {8,9,512,65464} x windowsize {1..4,8,64,(65534,65535)} x handshake, one > 65535-block file"));
    out.assumptions = vec!["contents are position-coded (the subject never branches on payload bytes)".into()];
    out
}

pub fn c02_check(tier: Tier) -> Outcome {
    let mut out = Outcome::new("C02", "model_checking");
    finish(&mut out, "modea", c02_cells(tier), tier);
    // write errors (RLIMIT_FSIZE at every block boundary and inside a block): a block that could not be stored must not be acknowledged
    let mut fs = vec![];
    for ws in 1..=3u16 {
        for n in 1..=4usize {
            let len = (n - 1) * 8 + 5;
            for clean in [true, false] {
                let mut x = base_cfg(Role::Receiver, len, 8, ws);
                x.clean = clean;
                x.alpha = 3;
                for j in 0..n {
                    for off in [0usize, 3] {
                        if j * 8 < off {
                            continue;
                        }
                        let mut s = cell_spec(&x, 0, MAXE, &["C02"]);
                        s["fsize"] = json!((j * 8 - off) as u64);
                        fs.push(s);
                        if ws >= 2 && clean {
                            // the write error coincides with one adversarial arrival (duplicate, gap, old block, stray ...):
                            // the flush on an out-of-sequence block must be as strict as the one at the window's end
                            let mut x1 = x.clone();
                            x1.alpha = 0;
                            let mut s1 = cell_spec(&x1, 1, MAXE, &["C02"]);
                            s1["fsize"] = json!((j * 8 - off) as u64);
                            fs.push(s1);
                        }
                    }
                }
            }
        }
    }
    finish(&mut out, "c13_fsize", fs, tier);
    finish(&mut out, "modeb", crate::e1b_checks::c02_b_cells(tier), tier);
    finish(&mut out, "e2_xfer", crate::e2_xfer::cells(true, tier == Tier::Thorough), tier);
    out.rule = format!("{} PLUS E1 Mode B: the real receiving Worker + reference sender + faulty network, every placement of up to F faults; PLUS E2: uploads to the real Server over real UDP sockets (both port modes, fault-free, every DATA duplicated, windows sent in reverse order).", modea_rule("upload monitors U1 (no ACK for a block not received in sequence), U2 (the file is read back inside Socket::send at the instant of every ACK emission and must hold exactly blocks 1..j for a j >= k), U3 (after the final ACK the file is the in-order blocks once each); write errors injected with RLIMIT_FSIZE at every block boundary and inside a block"));
    out.assumptions = vec!["the file snapshot at ACK emission is (length, hash) of the whole file; for the > 65535-block run (length, hash of the last 256 bytes)".into()];
    out
}

pub fn c16_check(tier: Tier) -> Outcome {
    let mut out = Outcome::new("C16", "model_checking");
    finish(&mut out, "modea", c16_cells(tier), tier);
    out.rule = modea_rule("multiplicity monitor M1");
    out
}
