//! E2 / C06 access policy: explicit-state BFS over file-tree states; transitions = requests carried to their end by
//! reference clients against the real Server; oracle = reference policy function written from the statement.

use crate::loopback::*;
use crate::refcodec as rc;
use crate::util::*;
use crate::{Outcome, Tier};
use serde_json::{json, Value};
use std::collections::{BTreeMap, VecDeque};

/// an existing file whose full path is longer than 255 octets (every component is an ordinary 55-character name)
const DEEP: &str = "ddddddddddddddddddddddddddddddddddddddddddddddddddddddd/ddddddddddddddddddddddddddddddddddddddddddddddddddddddd/ddddddddddddddddddddddddddddddddddddddddddddddddddddddd/ddddddddddddddddddddddddddddddddddddddddddddddddddddddd/ddddddddddddddddddddddddddddddddddddddddddddddddddddddd/e";
const TARGETS: [&str; 7] = ["m", "e", "L", "sub/e", "z", "nodir/m", DEEP]; // missing, existing shorter, existing longer, in a subdirectory, existing EMPTY, missing in a missing directory, existing at a deep path

fn optsets() -> Vec<Vec<(String, String)>> {
    vec![vec![], vec![("blksize".into(), "8".into())], vec![("tsize".into(), "0".into()), ("windowsize".into(), "2".into())], vec![("timeout".into(), "0".into())]]
}

#[derive(Clone, Debug)]
struct Action {
    write: bool,
    target: usize,
    optset: usize,
}

fn actions() -> Vec<Action> {
    let mut v = vec![];
    for write in [false, true] {
        for target in 0..TARGETS.len() {
            for optset in 0..optsets().len() {
                v.push(Action { write, target, optset });
            }
        }
    }
    v
}

fn initial_tree() -> Tree {
    let mut t = Tree::new();
    for base in ["/srv", "/up"] {
        t.insert(format!("{base}/"), vec![]);
        t.insert(format!("{base}/sub/"), vec![]);
        t.insert(format!("{base}/e"), content(10, 11));
        t.insert(format!("{base}/L"), content(100, 12));
        t.insert(format!("{base}/sub/e"), content(10, 13));
        t.insert(format!("{base}/z"), vec![]);
        let mut dir = base.to_string();
        for seg in DEEP.split('/').take(5) {
            dir = format!("{dir}/{seg}");
            t.insert(format!("{dir}/"), vec![]);
        }
        t.insert(format!("{base}/{DEEP}"), content(10, 14));
    }
    t
}

fn payload(depth: usize, action: usize) -> Vec<u8> {
    content(40, 1000 + (depth * 100 + action) as u64)
}

fn tree_key(t: &Tree) -> u64 {
    let mut h = Hasher64::new();
    for (k, v) in t {
        h.feed(k.as_bytes());
        h.feed(&[0]);
        h.feed(v);
        h.feed(&[1]);
    }
    h.0
}

struct Obs {
    summary: String,
    viol: Vec<(String, String)>,
    transferred: bool,
}

/// Applies one action on the current on-disk state and judges it against the reference policy.
fn apply(srv: &Srv, cfg: &SrvCfg, before: &Tree, a: &Action, depth: usize, aidx: usize, session: &mut Option<Client>) -> Obs {
    // session = Some: every request of this cell comes from ONE client socket (same endpoint again and again), so state the
    // server keeps per endpoint is carried from request to request; None: a fresh socket (fresh TID) per request
    if let Some(c) = session.as_mut() {
        c.reset_for_reuse();
    }
    // "no transfer thread after a refusal" is judged by counting threads: start from a quiescent server
    quiesce();
    let name = TARGETS[a.target];
    let opts = &optsets()[a.optset];
    let invalid_opts = a.optset == 3;
    let rel_send = &srv.send_dir[srv.root.len()..];
    let rel_recv = &srv.recv_dir[srv.root.len()..];
    let mut viol: Vec<(String, String)> = vec![];
    let listen_port = srv.addr.port();
    let desc = format!("{} {:?} opts {:?}", if a.write { "WRQ" } else { "RRQ" }, name, opts);
    let mut transferred = false;
    let summary;
    if !a.write {
        let exists = before.get(&format!("{rel_send}/{name}"));
        let r = match session.as_mut() {
            Some(c) => download_on(c, srv, name.as_bytes(), opts, None, 0),
            None => download(srv, name.as_bytes(), opts),
        };
        summary = format!("R err={:?} done={} len={}", r.error.as_ref().map(|e| e.0), r.completed, r.data.len());
        match exists {
            None => {
                if r.error.as_ref().map(|e| e.0) != Some(1) {
                    viol.push(("missing-not-error1".into(), format!("{desc}: missing file must be refused with ERROR 1, got first reply {} error {:?}", r.first, r.error)));
                }
                refusal_checks(&mut viol, &desc, &r.sources, listen_port);
            }
            Some(_) if invalid_opts => {
                // a value the server cannot honour: whether and how it answers is C09's business; here only "a read
                // changes nothing" (below) applies
            }
            Some(want) => {
                transferred = true;
                if !r.completed || &r.data != want {
                    viol.push(("read-content".into(), format!("{desc}: served {} bytes (completed={}) but the file holds {} bytes / different content; anomalies {:?}", r.data.len(), r.completed, want.len(), r.anomalies)));
                }
            }
        }
        let after = snapshot(&srv.root);
        let d = tree_diff(before, &after);
        if !d.is_empty() {
            viol.push(("read-changed-disk".into(), format!("{desc}: a read request changed the tree: {:?}", d)));
        }
    } else {
        let key = format!("{rel_recv}/{name}");
        let exists = before.contains_key(&key);
        let pl = payload(depth, aidx);
        let r = match session.as_mut() {
            Some(c) => upload_on(c, srv, name.as_bytes(), opts, &pl),
            None => upload(srv, name.as_bytes(), opts, &pl),
        };
        summary = format!("W err={:?} done={}", r.error.as_ref().map(|e| e.0), r.completed);
        let after = snapshot(&srv.root);
        let d = tree_diff(before, &after);
        if cfg.read_only {
            if r.error.as_ref().map(|e| e.0) != Some(2) {
                viol.push(("readonly-not-error2".into(), format!("{desc}: read-only server must refuse with ERROR 2, got first reply {} error {:?}", r.first, r.error)));
            }
            if !d.is_empty() {
                viol.push(("readonly-changed-disk".into(), format!("{desc}: read-only server changed the tree: {:?}", d)));
            }
            refusal_checks(&mut viol, &desc, &r.sources, listen_port);
        } else if exists && !cfg.overwrite {
            if r.error.as_ref().map(|e| e.0) != Some(6) {
                viol.push(("exists-not-error6".into(), format!("{desc}: existing file without --overwrite must be refused with ERROR 6, got first reply {} error {:?}", r.first, r.error)));
            }
            if !d.is_empty() {
                viol.push(("exists-changed-disk".into(), format!("{desc}: refused write changed the tree: {:?}", d)));
            }
            refusal_checks(&mut viol, &desc, &r.sources, listen_port);
        } else if invalid_opts {
            // not one of the three refusal cases and the request carries a value the server cannot honour: acceptance is
            // not demanded; only the target itself may change
            let others: Vec<&String> = d.iter().filter(|x| !x.ends_with(&format!(" {key}"))).collect();
            if !others.is_empty() {
                viol.push(("write-collateral".into(), format!("{desc}: the request changed other entries: {:?}", others)));
            }
        } else if name.starts_with("nodir/") {
            // the target's directory does not exist: the statement neither demands acceptance nor a particular refusal; only
            // "nothing else changes" is checked
            if !d.is_empty() {
                viol.push(("write-collateral".into(), format!("{desc}: an upload into a missing directory changed the tree: {:?}", d)));
            }
        } else {
            transferred = true;
            // accepted upload: the file holds exactly the payload afterwards, nothing else changed
            if !r.completed {
                viol.push(("write-incomplete".into(), format!("{desc}: accepted upload did not complete: first {} error {:?} anomalies {:?}", r.first, r.error, r.anomalies)));
            }
            match after.get(&key) {
                Some(v) if *v == pl => {}
                Some(v) => viol.push(("write-content".into(), format!("{desc}: after the upload the file holds {} bytes, payload was {} bytes (old content {} bytes){}", v.len(), pl.len(), before.get(&key).map(|x| x.len()).unwrap_or(0), if v.len() > pl.len() && v[..pl.len()] == pl[..] { " — tail of the old content left in place" } else { "" }))),
                None => viol.push(("write-missing".into(), format!("{desc}: after a completed upload the file is missing"))),
            }
            let others: Vec<&String> = d.iter().filter(|x| !x.ends_with(&format!(" {key}"))).collect();
            if !others.is_empty() {
                viol.push(("write-collateral".into(), format!("{desc}: the upload changed other entries: {:?}", others)));
            }
        }
    }
    Obs { summary, viol, transferred }
}

fn refusal_checks(viol: &mut Vec<(String, String)>, desc: &str, sources: &[std::net::SocketAddr], listen_port: u16) {
    // refusals come from the listening port and start no transfer
    if let Some(s) = sources.iter().find(|s| s.port() != listen_port) {
        viol.push(("refusal-wrong-port".into(), format!("{desc}: a datagram of the refusal came from port {} instead of the listening port {listen_port}", s.port())));
    }
    if workers_alive() {
        viol.push(("refusal-started-transfer".into(), format!("{desc}: a transfer thread is alive right after the refusal")));
        quiesce();
    }
}

pub fn cell(spec: &Value) -> Value {
    let cfg = SrvCfg::from_json(&spec["srv"]);
    let depth_max = spec["depth"].as_u64().unwrap() as usize;
    let first: Option<usize> = spec["first"].as_u64().map(|x| x as usize);
    let mut c = Counters::default();
    let srv = match if cfg.single { server_fresh(&cfg) } else { server_for(&cfg) } {
        Ok(s) => s,
        Err(e) => return json!({"machinery_error": format!("server start: {e}")}),
    };
    let acts = actions();
    let init = initial_tree();
    restore(&srv.root, &init);
    let mut session: Option<Client> = if spec["reuse_endpoint"].as_bool().unwrap_or(false) { Some(Client::new(srv.addr)) } else { None };
    // BFS over tree states
    let mut seen: BTreeMap<u64, String> = BTreeMap::new(); // state -> probe outcome at first visit
    let mut frontier: VecDeque<(Tree, Vec<usize>)> = VecDeque::new();
    let probe = |srv: &Srv| -> String {
        let r = download(srv, b"e", &[]);
        format!("{:?}/{}/{}", r.error.as_ref().map(|e| e.0), r.completed, fnv64(&r.data))
    };
    seen.insert(tree_key(&init), probe(&srv));
    frontier.push_back((init.clone(), vec![]));
    let mut outcomes: std::collections::BTreeSet<u64> = Default::default();
    let budget = Budget::new();
    while let Some((state, path)) = frontier.pop_front() {
        if budget.over(&mut c) {
            break;
        }
        let d = path.len();
        if d >= depth_max {
            continue;
        }
        for (ai, a) in acts.iter().enumerate() {
            if d == 0 {
                if let Some(f) = first {
                    if ai != f {
                        continue;
                    }
                }
            }
            restore(&srv.root, &state);
            let obs = apply(&srv, &cfg, &state, a, d, ai, &mut session);
            c.executions += 1;
            c.transitions += 1;
            if obs.transferred {
                c.nontrivial += 1;
            }
            outcomes.insert(fnv64(format!("{}{}{}", a.write, a.optset, obs.summary).as_bytes()));
            let mut p2 = path.clone();
            p2.push(ai);
            for (clause, what) in obs.viol {
                c.violations.push(Violation {
                    property: "C06".into(),
                    clause,
                    facts: facts(&[("write", json!(a.write))]),
                    what: format!("[{}{}] after actions {:?}: {}", cfg.brief(), if session.is_some() { ", all requests from one endpoint" } else { "" }, path, what),
                    replay: json!({"engine": "e2_c06", "srv": cfg.to_json(), "actions": p2, "reuse_endpoint": session.is_some()}),
                    weight: p2.len() as u64 * 100 + ai as u64,
                });
            }
            let after = snapshot(&srv.root);
            let k = tree_key(&after);
            match seen.get(&k) {
                None => {
                    let pr = probe(&srv);
                    seen.insert(k, pr);
                    frontier.push_back((after, p2.clone()));
                }
                Some(first_probe) => {
                    // differential guard against hidden server state: same tree reached by another path must behave the same
                    let pr = probe(&srv);
                    c.add_extra("revisit_probes", 1);
                    if &pr != first_probe {
                        c.violations.push(Violation {
                            property: "C06".into(),
                            clause: "hidden-state".into(),
                            facts: facts(&[("write", json!(a.write))]),
                            what: format!("[{}] the same file tree reached via {:?} answers the probe RRQ differently ({} vs {})", cfg.brief(), p2, pr, first_probe),
                            replay: json!({"engine": "e2_c06", "srv": cfg.to_json(), "actions": p2}),
                            weight: p2.len() as u64 * 100,
                        });
                    }
                }
            }
            if c.samples.len() < 2 && d + 1 == depth_max && obs.transferred {
                c.samples.push(json!({"srv": cfg.brief(), "actions": p2.iter().map(|i| format!("{} {} opts#{}", if acts[*i].write { "WRQ" } else { "RRQ" }, TARGETS[acts[*i].target], acts[*i].optset)).collect::<Vec<_>>(), "last_outcome": obs.summary}));
            }
        }
        if c.violations.len() > 400 {
            c.trim_violations(3);
        }
    }
    c.states = seen.len() as u64;
    if !quiesce() {
        c.machinery_errors.push("server not quiescent at the end of a C06 cell".into());
    }
    for o in outcomes {
        c.trace_hashes.insert(o);
    }
    c.trim_violations(3);
    c.to_json()
}

pub fn configs() -> Vec<SrvCfg> {
    let mut v = vec![];
    for read_only in [false, true] {
        for overwrite in [false, true] {
            for keep in [false, true] {
                for single in [false, true] {
                    for (distinct, rd_only) in [(false, false), (true, false), (true, true)] {
                        let mut s = SrvCfg::basic();
                        s.read_only = read_only;
                        s.overwrite = overwrite;
                        s.keep = keep;
                        s.single = single;
                        s.distinct = distinct;
                        s.rd_only = rd_only;
                        v.push(s);
                    }
                }
            }
        }
    }
    v
}

pub fn check(tier: Tier) -> Outcome {
    let depth = if tier == Tier::Quick { 2 } else { 4 };
    let mut cells = vec![];
    for s in configs() {
        for reuse in [false, true] {
            if tier == Tier::Quick {
                cells.push(json!({"srv": s.to_json(), "depth": depth, "reuse_endpoint": reuse}));
            } else {
                for f in 0..actions().len() {
                    cells.push(json!({"srv": s.to_json(), "depth": depth, "first": f, "reuse_endpoint": reuse}));
                }
            }
        }
    }
    let n = cells.len();
    let res = run_cells("c06", cells, &crate::pool_opts(tier));
    let mut out = Outcome::new("C06", "model_checking");
    out.absorb(res, n);
    out.rule = format!("explicit-state breadth-first search over file-tree states (state = sorted (path, bytes) snapshot, deduplicated by hash) from the initial tree {{e 10 B, L 100 B, sub/e}}; transitions = 56 request actions ({{RRQ,WRQ}} x {{missing, existing shorter, existing longer, in subdirectory, existing empty, missing in a missing directory, existing at a path longer than 255 octets}} x {{no options, blksize 8, tsize+windowsize 2, timeout 0 (a value the server cannot honour: the three refusals are still due)}}; uploads carry a 40-byte payload unique per (depth, action)) carried to their end against the real Server; depth <= {depth}; 48 configurations, each explored once with a fresh client socket per request and once with ALL requests from one client endpoint ({{read-only}} x {{overwrite}} x {{clean,keep}} x {{single,multi}} x {{shared dir, -d/-sd/-rd all given, -d + -rd with the send directory by fallback}}). Every transition is judged by a reference policy function (ERROR 2 / 6 / 1, refusal from the listening port, no transfer thread, disk unchanged; accepted uploads replace the content entirely). A tree reached a second time by another path is probed and compared with its first visit (hidden-state guard). non-trivial = transitions that transferred a file.");
    out.assumptions = vec!["the server's own worker threads are not scheduled by the harness; the driver keeps one request in flight and waits for quiescence".into()];
    out
}

pub fn replay(v: &Value) -> String {
    let cfg = SrvCfg::from_json(&v["srv"]);
    let srv = match server_for(&cfg) {
        Ok(s) => s,
        Err(e) => return format!("server start failed: {e}"),
    };
    let acts = actions();
    restore(&srv.root, &initial_tree());
    let mut s = String::new();
    let mut session: Option<Client> = if v["reuse_endpoint"].as_bool().unwrap_or(false) { Some(Client::new(srv.addr)) } else { None };
    let path: Vec<usize> = v["actions"].as_array().map(|a| a.iter().map(|x| x.as_u64().unwrap() as usize).collect()).unwrap_or_default();
    for (d, ai) in path.iter().enumerate() {
        let before = snapshot(&srv.root);
        let o = apply(&srv, &cfg, &before, &acts[*ai], d, *ai, &mut session);
        s.push_str(&format!("step {d}: {} {} opts#{} -> {} violations {:?}\n", if acts[*ai].write { "WRQ" } else { "RRQ" }, TARGETS[acts[*ai].target], acts[*ai].optset, o.summary, o.viol));
    }
    let _ = rc::ack(0);
    s
}
