//! E3 / C18: all operation sequences up to a bound on the public Window, against a Vec-based reference queue
//! with a reference file cursor. Source regime (read-only file), sink regime (fresh write-only file), and a
//! mixed regime (read+write handle) in which only the cursor-independent clauses are checked.

use crate::util::*;
use crate::{Outcome, Tier};
use serde_json::{json, Value};
use std::collections::VecDeque;
use std::fs::{File, OpenOptions};
use std::panic::{catch_unwind, AssertUnwindSafe};
use tftpd::Window;

#[derive(Clone, Copy, Debug, PartialEq)]
enum Op {
    Fill,
    Remove(u32), // may exceed u16 range intentionally? no: u16 argument; kept u32 for arithmetic
    Add(usize),
    Empty,
}

fn op_name(o: &Op) -> String {
    match o {
        Op::Fill => "fill".into(),
        Op::Remove(k) => format!("remove({k})"),
        Op::Add(l) => format!("add(len {l})"),
        Op::Empty => "empty".into(),
    }
}

struct Ref {
    q: VecDeque<Vec<u8>>,
    size: usize,
    chunk: usize,
    file: Vec<u8>,
    cursor: usize,
    end_seen: bool,
    sink: Vec<u8>,
    add_counter: u64,
}

fn add_payload(n: u64, len: usize) -> Vec<u8> {
    content(len, 1000 + n)
}

impl Ref {
    fn apply(&mut self, op: &Op) -> bool {
        // returns whether the operation must succeed
        match op {
            Op::Fill => {
                while self.q.len() < self.size {
                    if self.end_seen {
                        break; // nothing is handed out after the first short piece
                    }
                    let end = (self.cursor + self.chunk).min(self.file.len());
                    let piece = self.file[self.cursor..end].to_vec();
                    self.cursor = end;
                    if piece.len() < self.chunk {
                        self.end_seen = true;
                    }
                    self.q.push_back(piece);
                }
                true
            }
            Op::Remove(k) => {
                if *k as usize > self.q.len() {
                    false
                } else {
                    for _ in 0..*k {
                        self.q.pop_front();
                    }
                    true
                }
            }
            Op::Add(len) => {
                let p = add_payload(self.add_counter, *len);
                self.add_counter += 1;
                if self.q.len() >= self.size {
                    false
                } else {
                    self.q.push_back(p);
                    true
                }
            }
            Op::Empty => {
                for p in &self.q {
                    self.sink.extend_from_slice(p);
                }
                self.q.clear();
                true
            }
        }
    }
}

#[derive(Clone, Copy, PartialEq, Debug)]
enum Regime {
    Source,
    Sink,
    Mixed,
}

fn run_seq(regime: Regime, size: u16, chunk: usize, flen: usize, ops: &[Op], dir: &str) -> Option<(String, String, usize)> {
    // returns Some((clause, what, failing op index)) on violation
    let path = format!("{dir}/w_{}_{}", std::process::id(), match regime {
        Regime::Source => format!("src{flen}"),
        Regime::Sink => "sink".to_string(),
        Regime::Mixed => "mixed".to_string(),
    });
    let data = content(flen, 42);
    let file = match regime {
        Regime::Source => {
            if std::fs::metadata(&path).map(|m| m.len() as usize != flen).unwrap_or(true) {
                std::fs::write(&path, &data).unwrap();
            }
            File::open(&path).unwrap()
        }
        Regime::Sink => OpenOptions::new().write(true).create(true).truncate(true).open(&path).unwrap(),
        Regime::Mixed => {
            std::fs::write(&path, &data).unwrap();
            OpenOptions::new().read(true).write(true).open(&path).unwrap()
        }
    };
    let mut w = Window::new(size, chunk, file);
    let mut r = Ref { q: VecDeque::new(), size: size as usize, chunk, file: data.clone(), cursor: 0, end_seen: false, sink: vec![], add_counter: 0 };
    for (i, op) in ops.iter().enumerate() {
        if regime == Regime::Source && *op == Op::Empty && !r.q.is_empty() {
            continue; // would try to write to a read-only file: not part of this regime
        }
        let before: Vec<Vec<u8>> = if regime == Regime::Mixed { w.get_elements().iter().cloned().collect() } else { vec![] };
        let add_n = r.add_counter;
        let res = catch_unwind(AssertUnwindSafe(|| match op {
            Op::Fill => w.fill().map(|_| ()).map_err(|e| e.to_string()),
            Op::Remove(k) => w.remove(*k as u16).map_err(|e| e.to_string()),
            Op::Add(l) => w.add(add_payload(add_n, *l)).map_err(|e| e.to_string()),
            Op::Empty => w.empty().map_err(|e| e.to_string()),
        }));
        let res = match res {
            Err(_) => return Some(("panic".into(), format!("{} panicked: {}", op_name(op), last_panic()), i)),
            Ok(r) => r,
        };
        if regime == Regime::Mixed {
            // cursor-independent clauses only, against the implementation's own previous observation
            let after: Vec<Vec<u8>> = w.get_elements().iter().cloned().collect();
            if after.len() > size as usize {
                return Some(("exceeds-size".into(), format!("buffer holds {} > size {}", after.len(), size), i));
            }
            match op {
                Op::Remove(k) => {
                    let k = *k as usize;
                    if k > before.len() {
                        if res.is_ok() || after != before {
                            return Some(("remove-bound".into(), format!("remove({k}) on length {} must fail and change nothing", before.len()), i));
                        }
                    } else if res.is_err() || after[..] != before[k..] {
                        return Some(("remove-oldest".into(), format!("remove({k}) must drop exactly the {k} oldest pieces"), i));
                    }
                }
                Op::Add(l) => {
                    if before.len() == size as usize {
                        if res.is_ok() || after != before {
                            return Some(("add-bound".into(), "add on a full buffer must fail and change nothing".into(), i));
                        }
                    } else {
                        let mut want = before.clone();
                        want.push(add_payload(add_n, *l));
                        if res.is_err() || after != want {
                            return Some(("add-appends".into(), "add must append the piece at the back".into(), i));
                        }
                    }
                    r.add_counter += 1;
                }
                Op::Empty => {
                    if res.is_ok() && !after.is_empty() {
                        return Some(("empty-clears".into(), "empty must clear the buffer".into(), i));
                    }
                }
                Op::Fill => {
                    if res.is_ok() && (after.len() < before.len() || after[..before.len()] != before[..]) {
                        return Some(("fill-keeps-front".into(), "fill must not disturb pieces already buffered".into(), i));
                    }
                }
            }
            continue;
        }
        let must_ok = r.apply(op);
        if must_ok != res.is_ok() {
            let clause = match op {
                Op::Remove(_) => "remove-bound",
                Op::Add(_) => "add-bound",
                Op::Fill => "fill-fails",
                Op::Empty => "empty-fails",
            };
            return Some((clause.into(), format!("{} returned {:?} but must {}", op_name(op), res, if must_ok { "succeed" } else { "fail" }), i));
        }
        // observers
        let got: Vec<&Vec<u8>> = w.get_elements().iter().collect();
        if got.len() > size as usize {
            return Some(("exceeds-size".into(), format!("buffer holds {} > size {}", got.len(), size), i));
        }
        let same = got.len() == r.q.len() && got.iter().zip(r.q.iter()).all(|(a, b)| *a == b);
        if !same {
            let clause = match op {
                Op::Fill => {
                    if r.end_seen && got.len() > r.q.len() {
                        "fill-after-end"
                    } else {
                        "fill-content"
                    }
                }
                Op::Remove(_) => "remove-oldest",
                Op::Add(_) => "add-appends",
                Op::Empty => "empty-clears",
            };
            let show = |v: Vec<usize>| format!("{:?}", v);
            return Some((
                clause.into(),
                format!("after {}: buffer piece lengths {} but reference {} (contents compared too)", op_name(op), show(got.iter().map(|x| x.len()).take(12).collect()), show(r.q.iter().map(|x| x.len()).take(12).collect())),
                i,
            ));
        }
        if w.len() as usize != r.q.len() || w.is_empty() != r.q.is_empty() || w.is_full() != (r.q.len() == r.size) {
            return Some(("observers".into(), format!("len/is_empty/is_full = {}/{}/{} but reference length {} of {}", w.len(), w.is_empty(), w.is_full(), r.q.len(), r.size), i));
        }
        if regime == Regime::Sink {
            let on_disk = std::fs::read(&path).unwrap_or_default();
            if on_disk != r.sink {
                return Some(("empty-writes".into(), format!("file holds {} bytes, reference {} (emptied pieces in order)", on_disk.len(), r.sink.len()), i));
            }
        }
    }
    None
}

fn ops_for(regime: Regime, size: u16, chunk: usize) -> Vec<Op> {
    let mut v = vec![];
    match regime {
        Regime::Source => {
            v.push(Op::Fill);
            for k in 0..=(size as u32 + 1) {
                v.push(Op::Remove(k));
            }
            v.push(Op::Add(chunk));
            v.push(Op::Add(0));
            v.push(Op::Empty); // applied only while the buffer is empty (nothing to write to the read-only file)
        }
        Regime::Sink => {
            v.push(Op::Add(chunk));
            v.push(Op::Add(1.min(chunk)));
            v.push(Op::Add(0));
            v.push(Op::Add(chunk + 2)); // a piece longer than the chunk size is kept as it is
            for k in 0..=(size as u32 + 1) {
                v.push(Op::Remove(k));
            }
            v.push(Op::Empty);
        }
        Regime::Mixed => {
            v.push(Op::Fill);
            v.push(Op::Add(chunk));
            v.push(Op::Remove(1));
            v.push(Op::Remove(size as u32 + 1));
            v.push(Op::Empty);
        }
    }
    v.dedup();
    v
}

/// "stream": fill / remove(all) until the short piece — the concatenation of everything handed out is the file;
/// "bulk": n adds to a large sink window, then empty — the file holds all n pieces in order.
fn long_cell(spec: &Value, dir: &str) -> Value {
    let mut c = Counters::default();
    let size = spec["size"].as_u64().unwrap() as u16;
    let chunk = spec["chunk"].as_u64().unwrap() as usize;
    let mut bad: Option<(String, String)> = None;
    if spec["regime"] == "capacity" {
        // the bound is `size` pieces whatever size x chunk amounts to (products beyond 2^28 and 2^32 bytes)
        let path = format!("{dir}/cap_{}", std::process::id());
        let f = OpenOptions::new().write(true).create(true).truncate(true).open(&path).unwrap();
        let mut w = Window::new(size, chunk, f);
        let mut accepted = 0u64;
        for i in 0..(size as u64 + 2) {
            c.transitions += 1;
            let full_before = w.is_full();
            let r = w.add(vec![(i % 251) as u8]);
            if r.is_ok() {
                accepted += 1;
            }
            let should = i < size as u64;
            if r.is_ok() != should || full_before != (i >= size as u64) {
                bad = Some(("add-bound".into(), format!("window of size {size} (chunk {chunk}): add #{} {} while the buffer held {} pieces (is_full() said {full_before})", i + 1, if r.is_ok() { "succeeded" } else { "failed" }, i.min(accepted))));
                break;
            }
        }
        drop(w);
        let _ = std::fs::remove_file(&path);
        if bad.is_none() && (size as u64) * (chunk as u64) <= 400_000_000 {
            // source side: one fill of a (sparse) file large enough hands out exactly `size` pieces of `chunk` bytes
            let sp = format!("{dir}/capsrc_{}", std::process::id());
            let f = File::create(&sp).unwrap();
            f.set_len((size as u64 + 3) * chunk as u64).unwrap();
            drop(f);
            let mut w = Window::new(size, chunk, File::open(&sp).unwrap());
            let filled = w.fill();
            c.transitions += 1;
            if filled.is_err() || w.len() != size || !w.is_full() || w.get_elements().iter().any(|p| p.len() != chunk) {
                bad = Some(("fill-bound".into(), format!("window of size {size} (chunk {chunk}) over a file of {} bytes: one fill gave {} pieces (is_full() = {})", (size as u64 + 3) * chunk as u64, w.len(), w.is_full())));
            }
            drop(w);
            let _ = std::fs::remove_file(&sp);
        }
        c.samples.push(json!({"regime": "capacity", "size": size, "chunk": chunk}));
    } else if spec["regime"] == "huge" {
        // a file beyond 4 GiB (sparse: zeros except for position-coded stretches at the start and around byte 2^32),
        // streamed through fill/remove: every piece is compared with what the file holds at its offset
        use std::io::{Seek, SeekFrom, Write};
        let flen: u64 = (1u64 << 32) + 3 * chunk as u64 + 17;
        let marked = |off: u64| -> bool { off < 200_000 || (off >= (1u64 << 32) - 100_000 && off < (1u64 << 32) + 150_000) };
        let byte_at = |off: u64| -> u8 { if marked(off) { ((off.wrapping_mul(2654435761) >> 7) as u8) | 1 } else { 0 } };
        let path = format!("{dir}/huge_{}", std::process::id());
        {
            let mut f = File::create(&path).unwrap();
            f.set_len(flen).unwrap();
            for (lo, hi) in [(0u64, 200_000u64), ((1u64 << 32) - 100_000, (1u64 << 32) + 150_000)] {
                let buf: Vec<u8> = (lo..hi).map(byte_at).collect();
                f.seek(SeekFrom::Start(lo)).unwrap();
                f.write_all(&buf).unwrap();
            }
        }
        let mut w = Window::new(size, chunk, File::open(&path).unwrap());
        let mut off: u64 = 0;
        let mut ended = false;
        let mut rounds: u64 = 0;
        'outer: while !ended && rounds < flen / chunk as u64 + 10 {
            rounds += 1;
            c.transitions += 2;
            if w.fill().is_err() {
                bad = Some(("fill-fails".into(), format!("fill failed at offset {off} of a readable {flen}-byte file")));
                break;
            }
            for p in w.get_elements().iter() {
                if ended {
                    bad = Some(("fill-after-end".into(), format!("a piece of {} bytes was handed out after the first short piece", p.len())));
                    break 'outer;
                }
                let want_len = (flen - off.min(flen)).min(chunk as u64) as usize;
                let ok = p.len() == want_len && if marked(off) || marked(off + p.len() as u64) { p.iter().enumerate().all(|(i, b)| *b == byte_at(off + i as u64)) } else { p.iter().all(|b| *b == 0) };
                if !ok {
                    bad = Some(("fill-content".into(), format!("the piece handed out at file offset {off} ({} bytes) is not file[{off}..{}] of the {flen}-byte file", p.len(), off + want_len as u64)));
                    break 'outer;
                }
                off += p.len() as u64;
                if p.len() < chunk {
                    ended = true;
                }
            }
            let n = w.len();
            let _ = w.remove(n);
        }
        if bad.is_none() && (!ended || off != flen) {
            bad = Some(("fill-content".into(), format!("streaming a {flen}-byte file handed out {off} bytes (short piece seen: {ended})")));
        }
        let _ = std::fs::remove_file(&path);
        c.samples.push(json!({"regime": "huge", "size": size, "chunk": chunk, "file_len": flen, "ops": "repeat [fill, remove(len)] until the short piece"}));
    } else if spec["regime"] == "stream" {
        let flen = spec["flen"].as_u64().unwrap() as usize;
        let data = content(flen, 43);
        let path = format!("{dir}/stream_{}", std::process::id());
        std::fs::write(&path, &data).unwrap();
        let mut w = Window::new(size, chunk, File::open(&path).unwrap());
        let mut got: Vec<u8> = vec![];
        let mut ended = false;
        let mut rounds = 0;
        while !ended && rounds < flen / chunk + 10 {
            rounds += 1;
            c.transitions += 2;
            if w.fill().is_err() {
                bad = Some(("fill-fails".into(), "fill failed on a readable file".into()));
                break;
            }
            if w.len() > size {
                bad = Some(("exceeds-size".into(), format!("buffer holds {} > size {}", w.len(), size)));
                break;
            }
            for p in w.get_elements().iter() {
                if ended {
                    bad = Some(("fill-after-end".into(), format!("a piece of {} bytes was handed out after the first short piece", p.len())));
                }
                if p.len() > chunk {
                    bad = Some(("fill-content".into(), format!("piece of {} bytes, chunk size {chunk}", p.len())));
                }
                got.extend_from_slice(p);
                if p.len() < chunk {
                    ended = true;
                }
            }
            let n = w.len();
            let _ = w.remove(n);
        }
        if bad.is_none() && (got != data || !ended) {
            let at = got.iter().zip(data.iter()).position(|(a, b)| a != b).unwrap_or(got.len().min(data.len()));
            bad = Some(("fill-content".into(), format!("streaming the file through fill/remove handed out {} bytes (short piece seen: {ended}) but the file has {}; first difference at offset {at}", got.len(), data.len())));
        }
        let _ = std::fs::remove_file(&path);
        c.samples.push(json!({"regime": "stream", "size": size, "chunk": chunk, "file_len": flen, "ops": "repeat [fill, remove(len)] until the short piece"}));
    } else {
        let n = spec["pieces"].as_u64().unwrap() as usize;
        let path = format!("{dir}/bulk_{}", std::process::id());
        let f = OpenOptions::new().write(true).create(true).truncate(true).open(&path).unwrap();
        let mut w = Window::new(size, chunk, f);
        let mut want: Vec<u8> = vec![];
        for i in 0..n {
            let l = if i % 7 == 3 { chunk + 1 } else { chunk };
            let p = add_payload(i as u64, l);
            want.extend_from_slice(&p);
            c.transitions += 1;
            if w.add(p).is_err() {
                bad = Some(("add-bound".into(), format!("add #{i} failed although the buffer holds {} of {}", w.len(), size)));
                break;
            }
        }
        if bad.is_none() {
            if w.empty().is_err() {
                bad = Some(("empty-fails".into(), "empty failed".into()));
            } else {
                let on_disk = std::fs::read(&path).unwrap_or_default();
                if on_disk != want {
                    bad = Some(("empty-writes".into(), format!("after {n} adds and empty the file holds {} bytes, the pieces add up to {}", on_disk.len(), want.len())));
                }
                if !w.is_empty() {
                    bad = Some(("empty-clears".into(), "buffer not empty after empty()".into()));
                }
            }
        }
        let _ = std::fs::remove_file(&path);
        c.samples.push(json!({"regime": "bulk sink", "size": size, "chunk": chunk, "pieces": n}));
    }
    c.executions = 1;
    c.states = 1;
    c.nontrivial = 1;
    c.trace_hashes.insert(fnv64(spec.to_string().as_bytes()));
    if let Some((clause, what)) = bad {
        c.violations.push(Violation { property: "C18".into(), clause, facts: facts(&[("regime", spec["regime"].clone())]), what: format!("{}: {}", spec, what), replay: json!({"engine": "e3_window_long", "spec": spec}), weight: 5000 });
    }
    c.to_json()
}

pub fn cell(spec: &Value) -> Value {
    let mut c = Counters::default();
    let dir = format!("{}/c18", scratch_root());
    let _ = std::fs::create_dir_all(&dir);
    if spec["regime"] == "stream" || spec["regime"] == "bulk" || spec["regime"] == "huge" || spec["regime"] == "capacity" {
        let v = long_cell(spec, &dir);
        let _ = std::fs::remove_dir_all(&dir);
        return v;
    }
    let regime = match spec["regime"].as_str().unwrap() {
        "source" => Regime::Source,
        "sink" => Regime::Sink,
        _ => Regime::Mixed,
    };
    let size = spec["size"].as_u64().unwrap() as u16;
    let chunk = spec["chunk"].as_u64().unwrap() as usize;
    let flen = spec["flen"].as_u64().unwrap() as usize;
    let depth = spec["depth"].as_u64().unwrap() as usize;
    let ops: Vec<Op> = if let Some(a) = spec["big_ops"].as_array() {
        // boundary sizes: a reduced alphabet, lengths resolved against the window size
        a.iter()
            .map(|x| match x.as_str().unwrap() {
                "fill" => Op::Fill,
                "remove1" => Op::Remove(1),
                "remove_size" => Op::Remove(size as u32),
                "remove_size_minus1" => Op::Remove(size as u32 - 1),
                "add" => Op::Add(chunk),
                _ => Op::Remove(0),
            })
            .collect()
    } else {
        ops_for(regime, size, chunk)
    };
    // enumerate all sequences of exactly `depth` operations; every prefix is checked on the way
    let n = ops.len();
    let total = (n as u64).pow(depth as u32);
    let mut seq = vec![ops[0]; depth];
    let mut first_sample = true;
    for code in 0..total {
        let mut x = code;
        for d in 0..depth {
            seq[d] = ops[(x % n as u64) as usize];
            x /= n as u64;
        }
        c.executions += 1;
        c.states += 1; // each full sequence is a distinct leaf of the operation tree
        c.transitions += depth as u64;
        let r = run_seq(regime, size, chunk, flen, &seq, &dir);
        // non-trivial: contains at least one fill/add that can succeed followed by another operation
        if seq.iter().any(|o| matches!(o, Op::Fill | Op::Add(_))) {
            c.nontrivial += 1;
        }
        if first_sample && code == total / 2 {
            first_sample = false;
            c.samples.push(json!({"regime": spec["regime"], "size": size, "chunk": chunk, "file_len": flen, "ops": seq.iter().map(op_name).collect::<Vec<_>>()}));
        }
        if let Some((clause, what, at)) = r {
            let prefix: Vec<String> = seq[..=at].iter().map(op_name).collect();
            c.violations.push(Violation {
                property: "C18".into(),
                clause: clause.clone(),
                facts: facts(&[("regime", spec["regime"].clone())]),
                what: format!("size {size} chunk {chunk} file {flen} B, ops {:?}: {}", prefix, what),
                replay: json!({"engine": "e3_window", "regime": spec["regime"], "size": size, "chunk": chunk, "flen": flen,
                    "ops": seq[..=at].iter().map(|o| match o { Op::Fill => json!("fill"), Op::Remove(k) => json!({"remove": k}), Op::Add(l) => json!({"add": l}), Op::Empty => json!("empty") }).collect::<Vec<_>>()}),
                weight: (at as u64 + 1) * 100 + size as u64 + flen as u64,
            });
            if c.violations.len() > 3000 {
                c.trim_violations(3);
            }
        }
    }
    c.trace_hashes.insert(fnv64(spec.to_string().as_bytes()));
    c.trim_violations(3);
    let _ = std::fs::remove_dir_all(&dir);
    c.to_json()
}

pub fn check(tier: Tier) -> Outcome {
    let depth = if tier == Tier::Quick { 5 } else { 7 };
    let mut cells = vec![];
    for size in 0..=3u64 {
        for chunk in 1..=3u64 {
            for flen in 0..=7u64 {
                cells.push(json!({"regime": "source", "size": size, "chunk": chunk, "flen": flen, "depth": depth}));
            }
            cells.push(json!({"regime": "sink", "size": size, "chunk": chunk, "flen": 0, "depth": depth}));
            cells.push(json!({"regime": "mixed", "size": size, "chunk": chunk, "flen": 5, "depth": depth}));
        }
    }
    // boundary window sizes
    let (bdepth, blens): (u64, Vec<u64>) = if tier == Tier::Quick { (2, vec![3, 65535]) } else { (3, vec![3, 65533, 65534, 65535, 65536, 70000]) };
    for size in [65534u64, 65535] {
        for flen in &blens {
            cells.push(json!({"regime": "source", "size": size, "chunk": 1, "flen": flen, "depth": bdepth, "big_ops": ["fill", "remove1", "remove_size", "remove_size_minus1", "add"]}));
        }
        cells.push(json!({"regime": "sink", "size": size, "chunk": 1, "flen": 0, "depth": 2, "big_ops": ["add", "remove1", "remove_size"]}));
    }
    // long streams (buffered-reader boundaries, large counts) and bulk sinks (more pieces than one vectored write takes)
    for chunk in [1u64, 3, 7, 1000, 1428, 4096, 5000] {
        for size in [1u64, 4] {
            for flen in [8191u64, 8192, 8193, 20000, 70000] {
                cells.push(json!({"regime": "stream", "size": size, "chunk": chunk, "flen": flen}));
            }
        }
    }
    // capacity is counted in pieces, not bytes: size x chunk beyond 2^28 and 2^32
    for (size, chunk) in [(4200u64, 65464u64), (40000, 8192), (65535, 4097), (65535, 65464), (513, 65464), (600, 65464)] {
        cells.push(json!({"regime": "capacity", "size": size, "chunk": chunk}));
    }
    // a file beyond 4 GiB (a 32-bit byte offset would wrap)
    cells.insert(0, json!({"regime": "huge", "size": 4, "chunk": 65464}));
    // more than 65536 chunks handed out from one file (a 16-bit chunk counter would wrap)
    for size in [1u64, 4] {
        cells.push(json!({"regime": "stream", "size": size, "chunk": 3, "flen": 200_000}));
    }
    for pieces in [1023u64, 1024, 1025, 3000, 65535] {
        cells.push(json!({"regime": "bulk", "size": 65535, "chunk": 2, "pieces": pieces}));
    }
    let n = cells.len();
    let res = run_cells("c18", cells, &crate::pool_opts(tier));
    let mut out = Outcome::new("C18", "model_checking");
    out.absorb(res, n);
    out.rule = format!("all sequences of exactly {depth} operations (every prefix checked) for (size, chunk, file length) in {{0..3}} x {{1..3}} x {{0..7}}: source regime (read-only file) over {{fill, remove(0..size+1), add(chunk), add(0)}}, sink regime (fresh write-only file) over {{add(chunk/1/0), remove(0..size+1), empty}}, mixed regime (read+write handle, cursor-independent clauses only); plus sizes 65534/65535 with chunk 1 over a reduced alphabet to depth {bdepth}; plus streaming whole files of 8191..200000 bytes through fill/remove for chunk sizes 1..5000 (more than 65536 chunks) and one sparse file of 4 GiB + 196409 bytes with chunk size 65464, bulk sinks of 1023..65535 pieces, and the capacity bound for size x chunk products up to 4.3 * 10^9 bytes. After every operation the observers len/is_empty/is_full/get_elements (and the sink file) are compared with a VecDeque reference with a read cursor and an end-seen flag. non-trivial = sequences containing a fill or add. states = sequences, transitions = operations applied to the real Window.");
    out.assumptions = vec!["fill's boolean result is not part of the statement and is not compared".into(), "only regular files on tmpfs (no short reads from special files)".into()];
    out
}

pub fn replay(v: &Value) -> String {
    let regime = match v["regime"].as_str().unwrap_or("source") {
        "source" => Regime::Source,
        "sink" => Regime::Sink,
        _ => Regime::Mixed,
    };
    let ops: Vec<Op> = v["ops"]
        .as_array()
        .map(|a| {
            a.iter()
                .map(|o| {
                    if o == "fill" {
                        Op::Fill
                    } else if o == "empty" {
                        Op::Empty
                    } else if let Some(k) = o.get("remove") {
                        Op::Remove(k.as_u64().unwrap() as u32)
                    } else {
                        Op::Add(o["add"].as_u64().unwrap() as usize)
                    }
                })
                .collect()
        })
        .unwrap_or_default();
    let dir = format!("{}/c18", scratch_root());
    let _ = std::fs::create_dir_all(&dir);
    let r = run_seq(regime, v["size"].as_u64().unwrap() as u16, v["chunk"].as_u64().unwrap() as usize, v["flen"].as_u64().unwrap() as usize, &ops, &dir);
    rm_rf(&scratch_root());
    format!("ops {:?} -> {:?}", ops.iter().map(op_name).collect::<Vec<_>>(), r)
}
