//! E2 core: the real `Server` in-process on loopback, reference clients that send one datagram at a time,
//! listener barrier + worker quiescence (thread count back to baseline), sandbox trees and snapshots.

use crate::refcodec::{self as rc, RPacket};
use crate::util::*;
use std::collections::BTreeMap;
use std::net::{SocketAddr, UdpSocket};
use std::time::{Duration, Instant};
use tftpd::{Config, Server};

pub const BACKSTOP: Duration = Duration::from_millis(3000);

pub fn task_count() -> usize {
    // number of threads of this process: the kernel's own counter (listing /proc/self/task can miss a thread
    // when another one exits during the listing, which made quiescence detection return early once in ~40 000 runs)
    if let Ok(s) = std::fs::read_to_string("/proc/self/status") {
        for l in s.lines() {
            if let Some(v) = l.strip_prefix("Threads:") {
                if let Ok(n) = v.trim().parse::<usize>() {
                    return n;
                }
            }
        }
    }
    std::fs::read_dir("/proc/self/task").map(|d| d.count()).unwrap_or(0)
}

#[derive(Clone, Debug)]
pub struct SrvCfg {
    pub single: bool,
    pub read_only: bool,
    pub overwrite: bool,
    pub keep: bool,
    pub distinct: bool,
    pub dup: u8,
    pub ipv6: bool,
    /// with `distinct`: the send directory is NOT given explicitly (`-d <srv> -rd <up>`), so it must fall back to -d
    pub rd_only: bool,
    /// the server listens on `::` (dual-stack) while the clients speak IPv4 (they appear as ::ffff:127.0.0.1)
    pub dual: bool,
}

impl SrvCfg {
    pub fn basic() -> SrvCfg {
        SrvCfg { single: false, read_only: false, overwrite: false, keep: false, distinct: false, dup: 0, ipv6: false, rd_only: false, dual: false }
    }
    pub fn key(&self) -> String {
        format!("s{}r{}o{}k{}d{}n{}v{}f{}u{}", self.single as u8, self.read_only as u8, self.overwrite as u8, self.keep as u8, self.distinct as u8, self.dup, self.ipv6 as u8, self.rd_only as u8, self.dual as u8)
    }
    pub fn brief(&self) -> String {
        let mut v = vec![];
        v.push(if self.single { "single-port" } else { "multi-port" });
        if self.read_only {
            v.push("read-only");
        }
        if self.overwrite {
            v.push("overwrite");
        }
        if self.keep {
            v.push("keep-on-error");
        }
        v.push(if self.distinct && self.rd_only { "distinct dirs (-d + -rd, send dir by fallback)" } else if self.distinct { "distinct -sd/-rd" } else { "shared dir" });
        let mut s = v.join(",");
        if self.dup > 0 {
            s.push_str(&format!(",dup={}", self.dup));
        }
        if self.ipv6 {
            s.push_str(",ipv6");
        }
        if self.dual {
            s.push_str(",listening on :: with IPv4 clients");
        }
        s
    }
    pub fn to_json(&self) -> serde_json::Value {
        serde_json::json!({"single": self.single, "read_only": self.read_only, "overwrite": self.overwrite, "keep": self.keep, "distinct": self.distinct, "dup": self.dup, "ipv6": self.ipv6, "rd_only": self.rd_only, "dual": self.dual})
    }
    pub fn from_json(v: &serde_json::Value) -> SrvCfg {
        SrvCfg {
            single: v["single"].as_bool().unwrap_or(false),
            read_only: v["read_only"].as_bool().unwrap_or(false),
            overwrite: v["overwrite"].as_bool().unwrap_or(false),
            keep: v["keep"].as_bool().unwrap_or(false),
            distinct: v["distinct"].as_bool().unwrap_or(false),
            dup: v["dup"].as_u64().unwrap_or(0) as u8,
            ipv6: v["ipv6"].as_bool().unwrap_or(false),
            rd_only: v["rd_only"].as_bool().unwrap_or(false),
            dual: v["dual"].as_bool().unwrap_or(false),
        }
    }
    pub fn args(&self, port: u16, root: &str) -> Vec<String> {
        let mut a: Vec<String> = vec!["tftpd".into(), "-i".into(), if self.dual { "::".into() } else if self.ipv6 { "::1".into() } else { "127.0.0.1".into() }, "-p".into(), port.to_string()];
        if self.distinct && self.rd_only {
            a.extend(["-d".into(), format!("{root}/srv"), "-rd".into(), format!("{root}/up")]);
        } else if self.distinct {
            a.extend(["-d".into(), format!("{root}/srv"), "-sd".into(), format!("{root}/srv"), "-rd".into(), format!("{root}/up")]);
        } else {
            a.extend(["-d".into(), format!("{root}/srv")]);
        }
        if self.single {
            a.push("-s".into());
        }
        if self.read_only {
            a.push("-r".into());
        }
        if self.overwrite {
            a.push("--overwrite".into());
        }
        if self.keep {
            a.push("--keep-on-error".into());
        }
        if self.dup > 0 {
            a.extend(["--duplicate-packets".into(), self.dup.to_string()]);
        }
        a
    }
}

pub struct Srv {
    pub cfg: SrvCfg,
    pub addr: SocketAddr,
    pub root: String,
    pub send_dir: String,
    pub recv_dir: String,
    /// thread count of this process when the server is idle
    pub baseline: usize,
}

pub fn free_port(ipv6: bool) -> u16 {
    let s = UdpSocket::bind(if ipv6 { "[::1]:0" } else { "127.0.0.1:0" }).expect("bind probe");
    s.local_addr().unwrap().port()
}

static SRV_SEQ: std::sync::atomic::AtomicUsize = std::sync::atomic::AtomicUsize::new(0);

/// Starts a real Server in this process (its listen loop never returns; it lives until the process exits).
pub fn start_server(cfg: &SrvCfg) -> Result<Srv, String> {
    let n = SRV_SEQ.fetch_add(1, std::sync::atomic::Ordering::SeqCst);
    let root = format!("{}/e2/srv{}", scratch_root(), n);
    std::fs::create_dir_all(format!("{root}/srv")).map_err(|e| e.to_string())?;
    std::fs::create_dir_all(format!("{root}/up")).map_err(|e| e.to_string())?;
    for _attempt in 0..20 {
        let port = free_port(cfg.ipv6 || cfg.dual);
        let args = cfg.args(port, &root);
        let config = Config::new(args.into_iter()).map_err(|e| format!("Config::new: {e}"))?;
        match Server::new(&config) {
            Ok(mut server) => {
                let before = task_count();
                std::thread::spawn(move || server.listen());
                // wait until the listener thread exists
                let t0 = Instant::now();
                while task_count() <= before && t0.elapsed() < Duration::from_secs(2) {
                    std::thread::yield_now();
                }
                let ip: std::net::IpAddr = if cfg.ipv6 { "::1".parse().unwrap() } else { "127.0.0.1".parse().unwrap() };
                let srv = Srv {
                    cfg: cfg.clone(),
                    addr: SocketAddr::new(ip, port),
                    send_dir: format!("{root}/srv"),
                    recv_dir: if cfg.distinct { format!("{root}/up") } else { format!("{root}/srv") },
                    root,
                    baseline: task_count(),
                };
                return Ok(srv);
            }
            Err(_) => continue, // port taken meanwhile
        }
    }
    Err("could not bind a server port".into())
}

thread_local! {
    static SERVERS: std::cell::RefCell<BTreeMap<String, std::rc::Rc<Srv>>> = std::cell::RefCell::new(BTreeMap::new());
}

/// One server per configuration per shard process, reused across cells.
pub fn server_for(cfg: &SrvCfg) -> Result<std::rc::Rc<Srv>, String> {
    SERVERS.with(|m| {
        let mut m = m.borrow_mut();
        if let Some(s) = m.get(&cfg.key()) {
            return Ok(s.clone());
        }
        // baseline of an earlier server includes only the threads alive then; recompute for all after adding one
        let s = std::rc::Rc::new(start_server(cfg)?);
        m.insert(cfg.key(), s.clone());
        Ok(s)
    })
}

/// A server instance of its own for this cell (never used before): per-server state such as the single-port
/// listener's buffer size or its routing table starts from scratch. It still counts for the thread baseline.
pub fn server_fresh(cfg: &SrvCfg) -> Result<std::rc::Rc<Srv>, String> {
    SERVERS.with(|m| {
        let mut m = m.borrow_mut();
        let s = std::rc::Rc::new(start_server(cfg)?);
        let key = format!("{}#fresh{}", cfg.key(), m.len());
        m.insert(key, s.clone());
        Ok(s)
    })
}

pub fn current_baseline() -> usize {
    // all servers of this process idle: main thread + one listener per server
    SERVERS.with(|m| 1 + m.borrow().len())
}

// ---------------------------------------------------------------- client side

pub struct Client {
    pub sock: UdpSocket,
    pub server: SocketAddr,
    /// endpoint the transfer's datagrams come from (learned from the first reply)
    pub peer: Option<SocketAddr>,
    /// source address of every datagram received
    pub sources: Vec<SocketAddr>,
    /// several transfers are open at once (C12): thread-count guards do not apply
    pub unguarded: bool,
}

impl Client {
    pub fn new(server: SocketAddr) -> Client {
        let sock = UdpSocket::bind(if server.is_ipv6() { "[::1]:0" } else { "127.0.0.1:0" }).expect("bind client");
        big_rcvbuf(&sock);
        Client { sock, server, peer: None, sources: vec![], unguarded: false }
    }
    /// A client bound to a given local address (e.g. another loopback address with a chosen port number).
    pub fn bound(server: SocketAddr, local: SocketAddr) -> Option<Client> {
        let sock = UdpSocket::bind(local).ok()?;
        big_rcvbuf(&sock);
        Some(Client { sock, server, peer: None, sources: vec![], unguarded: false })
    }
    pub fn local_port(&self) -> u16 {
        self.sock.local_addr().unwrap().port()
    }
    pub fn to_server(&self, bytes: &[u8]) {
        let _ = self.sock.send_to(bytes, self.server);
    }
    /// Sends to the transfer endpoint (ordinary protocol traffic: the endpoint has just sent us something).
    pub fn to_peer(&self, bytes: &[u8]) {
        let _ = self.sock.send_to(bytes, self.peer.unwrap_or(self.server));
    }
    /// For abort / clean-up datagrams: never send to a transfer port that may already be closed. Ephemeral ports are
    /// re-used system-wide, and a datagram to a dead port can land in a socket of a parallel shard (cross-talk).
    /// In multi-port mode the port is open as long as a transfer thread of this (one-transfer-at-a-time) process is
    /// alive; in single-port mode the peer is the listening port, which is always ours.
    pub fn to_peer_guarded(&self, bytes: &[u8]) {
        let dst = self.peer.unwrap_or(self.server);
        if dst == self.server || workers_alive() {
            let _ = self.sock.send_to(bytes, dst);
        }
    }
    /// After the handshake reply (OACK / ACK 0 are sent by the listener BEFORE it spawns the transfer thread): wait until
    /// the listener has finished that request, then tell whether the transfer thread is (still) there. False means the
    /// transfer ended at once (e.g. the target could not be opened) and its port must not be written to any more.
    pub fn transfer_open(&self, srv: &Srv) -> bool {
        if self.peer.unwrap_or(self.server) == self.server {
            return true;
        }
        barrier(srv);
        workers_alive()
    }
    /// one datagram or None after `wait`
    pub fn recv_wait(&mut self, wait: Duration) -> Option<(Vec<u8>, SocketAddr)> {
        let mut buf = vec![0u8; 65600];
        let _ = self.sock.set_read_timeout(Some(wait.max(Duration::from_micros(200))));
        match self.sock.recv_from(&mut buf) {
            Ok((n, from)) => {
                buf.truncate(n);
                self.sources.push(from);
                if self.peer.is_none() {
                    self.peer = Some(from);
                }
                Some((buf, from))
            }
            Err(_) => None,
        }
    }
    pub fn try_recv(&mut self) -> Option<(Vec<u8>, SocketAddr)> {
        let _ = self.sock.set_nonblocking(true);
        let mut buf = vec![0u8; 65600];
        let r = match self.sock.recv_from(&mut buf) {
            Ok((n, from)) => {
                buf.truncate(n);
                self.sources.push(from);
                if self.peer.is_none() {
                    self.peer = Some(from);
                }
                Some((buf, from))
            }
            Err(_) => None,
        };
        let _ = self.sock.set_nonblocking(false);
        r
    }
}

/// A burst of large blocks must not be dropped by the kernel at OUR socket (that would be an un-modelled loss).
pub fn big_rcvbuf(sock: &UdpSocket) {
    rcvbuf(sock, 16 * 1024 * 1024)
}

pub fn rcvbuf(sock: &UdpSocket, bytes: i32) {
    use std::os::unix::io::AsRawFd;
    let sz: libc::c_int = bytes;
    unsafe {
        let p = &sz as *const libc::c_int as *const libc::c_void;
        if libc::setsockopt(sock.as_raw_fd(), libc::SOL_SOCKET, libc::SO_RCVBUFFORCE, p, 4) != 0 {
            libc::setsockopt(sock.as_raw_fd(), libc::SOL_SOCKET, libc::SO_RCVBUF, p, 4);
        }
    }
}

/// A second client completes a plain one-block download of `x_small` (must exist in the send directory) — used in the
/// middle of somebody else's transfer. Returns false if it was not served correctly.
pub fn foreign_small_download(srv: &Srv) -> bool {
    let mut f = Client::new(srv.addr);
    f.to_server(&rc::request(false, b"x_small", &[]));
    match f.recv_wait(BACKSTOP) {
        Some((b, _)) => match rc::decode(&b) {
            Ok(RPacket::Data { block: 1, data }) => {
                f.to_peer(&rc::ack(1));
                data == b"s"
            }
            _ => false,
        },
        None => false,
    }
}

/// Listener barrier: a probe RRQ for a missing file from a second socket; its ERROR(1) comes from the sequential
/// listen loop, so everything sent to the listening port before it has been handled when it returns.
pub fn barrier(srv: &Srv) -> bool {
    let mut c = Client::new(srv.addr);
    let t0 = Instant::now();
    while t0.elapsed() < BACKSTOP {
        // (re-sent if unanswered: a listener flooded with stale datagrams may have had the probe dropped by the kernel)
        c.to_server(&rc::request(false, b"__verif_barrier_missing__", &[]));
        if let Some((b, _)) = c.recv_wait(Duration::from_millis(100)) {
            if matches!(rc::decode(&b), Ok(RPacket::Error { .. })) {
                return true;
            }
        }
    }
    false
}

/// Waits until all transfer workers have ended (thread count back to baseline). false = backstop expired.
pub fn quiesce() -> bool {
    let base = current_baseline();
    let t0 = Instant::now();
    let mut spins = 0u32;
    loop {
        if task_count() <= base {
            return true;
        }
        if t0.elapsed() > BACKSTOP {
            return false;
        }
        spins += 1;
        if spins < 200 {
            std::thread::yield_now();
        } else {
            std::thread::sleep(Duration::from_micros(200));
        }
    }
}

pub fn workers_alive() -> bool {
    task_count() > current_baseline()
}

/// Next reply for this client, or None once it is certain that none will come:
/// the listener has handled everything (barrier) and no transfer worker is alive.
pub fn reply_or_quiet(srv: &Srv, c: &mut Client) -> Option<(Vec<u8>, SocketAddr)> {
    if let Some(r) = c.recv_wait(Duration::from_millis(2)) {
        return Some(r);
    }
    let t0 = Instant::now();
    let mut barrier_done = false;
    loop {
        if !barrier_done {
            barrier_done = barrier(srv);
        }
        if let Some(r) = c.recv_wait(Duration::from_millis(1)) {
            return Some(r);
        }
        if barrier_done && !workers_alive() {
            // a worker may have emitted just before exiting
            return c.try_recv();
        }
        if t0.elapsed() > BACKSTOP {
            return c.try_recv();
        }
    }
}

// ---------------------------------------------------------------- sandbox trees

pub type Tree = BTreeMap<String, Vec<u8>>;

pub fn snapshot(root: &str) -> Tree {
    let mut t = Tree::new();
    fn walk(dir: &std::path::Path, root: &str, t: &mut Tree) {
        let Ok(rd) = std::fs::read_dir(dir) else { return };
        for e in rd.flatten() {
            let p = e.path();
            let rel = p.to_string_lossy()[root.len()..].to_string();
            match e.file_type() {
                Ok(ft) if ft.is_dir() => {
                    t.insert(format!("{rel}/"), vec![]);
                    walk(&p, root, t);
                }
                Ok(_) => {
                    t.insert(rel, std::fs::read(&p).unwrap_or_default());
                }
                Err(_) => {}
            }
        }
    }
    walk(std::path::Path::new(root), root, &mut t);
    t
}

pub fn restore(root: &str, want: &Tree) {
    let have = snapshot(root);
    // remove extras (deepest first)
    for (k, _) in have.iter().rev() {
        if !want.contains_key(k) {
            let p = format!("{root}{k}");
            if k.ends_with('/') {
                let _ = std::fs::remove_dir_all(&p);
            } else {
                let _ = std::fs::remove_file(&p);
            }
        }
    }
    for (k, v) in want {
        let p = format!("{root}{k}");
        if k.ends_with('/') {
            let _ = std::fs::create_dir_all(&p);
        } else if have.get(k) != Some(v) {
            if let Some(parent) = std::path::Path::new(&p).parent() {
                let _ = std::fs::create_dir_all(parent);
            }
            let _ = std::fs::write(&p, v);
        }
    }
}

pub fn tree_diff(a: &Tree, b: &Tree) -> Vec<String> {
    let mut d = vec![];
    for (k, v) in a {
        match b.get(k) {
            None => d.push(format!("removed {k}")),
            Some(w) if w != v => d.push(format!("modified {k}")),
            _ => {}
        }
    }
    for k in b.keys() {
        if !a.contains_key(k) {
            d.push(format!("created {k}"));
        }
    }
    d
}

// ---------------------------------------------------------------- reference transfers (fault-free, one datagram at a time)

#[derive(Clone, Debug, Default)]
pub struct Dl {
    pub first: String,
    pub oack: Option<Vec<(String, String)>>,
    pub error: Option<(u16, String)>,
    pub data: Vec<u8>,
    pub block_lens: Vec<usize>,
    pub completed: bool,
    pub sources: Vec<SocketAddr>,
    pub bursts: Vec<Vec<u16>>,
    pub anomalies: Vec<String>,
    pub window_exceeded: bool,
}

pub fn parse_opts(o: &[(Vec<u8>, Vec<u8>)]) -> Vec<(String, String)> {
    o.iter().map(|(a, b)| (String::from_utf8_lossy(a).to_lowercase(), String::from_utf8_lossy(b).to_string())).collect()
}

pub fn opt_val(o: &[(String, String)], name: &str) -> Option<u64> {
    o.iter().find(|(n, _)| n == name).and_then(|(_, v)| v.parse().ok())
}

/// Downloads `name` with the given raw option list; follows the acknowledged blksize/windowsize; ACKs once per window.
pub fn download(srv: &Srv, name: &[u8], opts: &[(String, String)]) -> Dl {
    download_ex(srv, name, opts, None)
}

/// `pre_ack_grace`: before acknowledging a window, look (for that long) for a block the server sent beyond the
/// acknowledged window size — a datagram found then was emitted before our ACK (no false alarm is possible;
/// the grace period only makes detection more likely).
pub fn download_ex(srv: &Srv, name: &[u8], opts: &[(String, String)], pre_ack_grace: Option<Duration>) -> Dl {
    download_mode(srv, name, opts, pre_ack_grace, 0)
}

/// ack_mode: 0 = one ACK per window; 1 = every ACK sent twice (duplicate ACKs); 2 = the previous ACK is repeated
/// (stale) just before each new one
pub fn download_mode(srv: &Srv, name: &[u8], opts: &[(String, String)], pre_ack_grace: Option<Duration>, ack_mode: u8) -> Dl {
    let mut c = Client::new(srv.addr);
    download_on(&mut c, srv, name, opts, pre_ack_grace, ack_mode)
}

impl Client {
    /// prepare a socket that has been used before for another request (same endpoint, new transfer)
    pub fn reset_for_reuse(&mut self) {
        while self.try_recv().is_some() {}
        self.peer = None;
        self.sources.clear();
    }
}

/// The same, from a given client socket (which may have been used for earlier requests: same endpoint).
pub fn download_on(c: &mut Client, srv: &Srv, name: &[u8], opts: &[(String, String)], pre_ack_grace: Option<Duration>, ack_mode: u8) -> Dl {
    let mut prev_ack: Option<u16> = None;
    let mut did_partial = false;
    let mut r = Dl::default();
    c.to_server(&rc::request(false, name, opts));
    let mut blk = 512usize;
    let mut ws = 1u64;
    let mut expect: u64 = 1;
    let mut in_window = 0u64;
    let mut first = true;
    let mut burst: Vec<u16> = vec![];
    loop {
        let Some((b, _from)) = reply_or_quiet(srv, c) else {
            if first {
                r.first = "none".into();
            } else {
                r.anomalies.push("transfer stalled: no further datagram and no worker alive".into());
            }
            break;
        };
        let p = rc::decode(&b);
        if first {
            r.first = rc::describe(&b);
        }
        match p {
            Ok(RPacket::Oack(o)) if first => {
                let o = parse_opts(&o);
                if let Some(v) = opt_val(&o, "blksize") {
                    blk = v as usize;
                }
                if let Some(v) = opt_val(&o, "windowsize") {
                    ws = v.max(1);
                }
                r.oack = Some(o);
                if !c.transfer_open(srv) {
                    r.anomalies.push("the transfer ended right after the OACK".into());
                    break;
                }
                c.to_peer(&rc::ack(0));
            }
            Ok(RPacket::Data { block, data }) => {
                burst.push(block);
                if expect > 200_000 {
                    r.anomalies.push("more than 200000 blocks: giving up".into());
                    c.to_peer_guarded(&rc::error(0, "too long"));
                    break;
                }
                if block == (expect % 65536) as u16 {
                    r.block_lens.push(data.len());
                    r.data.extend_from_slice(&data);
                    expect += 1;
                    in_window += 1;
                    let last = data.len() < blk;
                    if ack_mode == 4 && !did_partial && !last && in_window == ws && ws >= 2 {
                        // acknowledge only the FIRST block of this window: the server goes back and sends exactly the next
                        // `ws` blocks (the rest of this window again plus one new block)
                        did_partial = true;
                        let back = (ws - 1) as usize;
                        r.data.truncate(r.data.len() - back * blk);
                        r.block_lens.truncate(r.block_lens.len() - back);
                        expect -= back as u64;
                        in_window = 0;
                        burst.clear();
                        c.to_peer(&rc::ack(((expect - 1) % 65536) as u16));
                        first = false;
                        continue;
                    }
                    if last || in_window == ws {
                        in_window = 0;
                        r.bursts.push(std::mem::take(&mut burst));
                        if let Some(g) = pre_ack_grace {
                            if let Some((x, _)) = c.recv_wait(g) {
                                r.anomalies.push(format!("window exceeded: {} arrived before the window ending with block {block} was acknowledged", rc::describe(&x)));
                                r.window_exceeded = true;
                            }
                        }
                        if ack_mode == 2 {
                            if let Some(p) = prev_ack {
                                c.to_peer(&rc::ack(p));
                            }
                        }
                        if ack_mode == 3 && prev_ack.is_none() && !foreign_small_download(srv) {
                            r.anomalies.push("the foreign client's small download in the middle of this transfer was not served".into());
                        }
                        c.to_peer(&rc::ack(block));
                        if ack_mode == 1 && !last {
                            c.to_peer(&rc::ack(block));
                        }
                        prev_ack = Some(block);
                        if last {
                            r.completed = true;
                            break;
                        }
                    }
                } else {
                    r.anomalies.push(format!("unexpected DATA({block}) while expecting {expect}"));
                    if r.anomalies.len() > 20 {
                        c.to_peer_guarded(&rc::error(0, "giving up"));
                        break;
                    }
                }
            }
            Ok(RPacket::Error { code, msg }) => {
                r.error = Some((code, String::from_utf8_lossy(&msg).to_string()));
                break;
            }
            other => {
                r.anomalies.push(format!("unexpected reply {:?}", other.map(|_| rc::describe(&b))));
                c.to_peer_guarded(&rc::error(0, "unexpected"));
                break;
            }
        }
        first = false;
    }
    quiesce();
    // anything emitted after the end?
    while let Some((b, _)) = c.try_recv() {
        r.anomalies.push(format!("datagram after the end: {}", rc::describe(&b)));
    }
    if ack_mode != 0 {
        barrier(srv); // our surplus ACKs may still be queued at the listener
        while c.try_recv().is_some() {}
    }
    r.sources = c.sources.clone();
    r
}

#[derive(Clone, Debug, Default)]
pub struct Ul {
    pub first: String,
    pub oack: Option<Vec<(String, String)>>,
    pub error: Option<(u16, String)>,
    pub acks: Vec<u16>,
    pub completed: bool,
    pub sources: Vec<SocketAddr>,
    pub anomalies: Vec<String>,
}

/// Uploads `payload` as `name`; follows acknowledged blksize/windowsize; sends one window, waits for its ACK.
pub fn upload(srv: &Srv, name: &[u8], opts: &[(String, String)], payload: &[u8]) -> Ul {
    let mut c = Client::new(srv.addr);
    upload_on(&mut c, srv, name, opts, payload)
}

pub fn upload_on(c: &mut Client, srv: &Srv, name: &[u8], opts: &[(String, String)], payload: &[u8]) -> Ul {
    let mut r = Ul::default();
    c.to_server(&rc::request(true, name, opts));
    let Some((b, _)) = reply_or_quiet(srv, c) else {
        r.first = "none".into();
        quiesce();
        return r;
    };
    r.first = rc::describe(&b);
    let mut blk = 512usize;
    let mut ws = 1u64;
    match rc::decode(&b) {
        Ok(RPacket::Oack(o)) => {
            let o = parse_opts(&o);
            if let Some(v) = opt_val(&o, "blksize") {
                blk = v as usize;
            }
            if let Some(v) = opt_val(&o, "windowsize") {
                ws = v.max(1);
            }
            r.oack = Some(o);
        }
        Ok(RPacket::Ack(0)) => {}
        Ok(RPacket::Error { code, msg }) => {
            r.error = Some((code, String::from_utf8_lossy(&msg).to_string()));
            quiesce();
            r.sources = c.sources.clone();
            return r;
        }
        _ => {
            r.anomalies.push(format!("unexpected first reply {}", rc::describe(&b)));
            c.to_peer_guarded(&rc::error(0, "unexpected"));
            quiesce();
            r.sources = c.sources.clone();
            return r;
        }
    }
    if blk == 0 {
        r.anomalies.push("blksize 0 acknowledged".into());
        c.to_peer_guarded(&rc::error(0, "bad blksize"));
        quiesce();
        r.sources = c.sources.clone();
        return r;
    }
    let nfinal = (payload.len() / blk) as u64 + 1;
    let mut base: u64 = 1;
    if !c.transfer_open(srv) {
        r.anomalies.push("the transfer ended right after it was accepted (target cannot be created?)".into());
        quiesce();
        r.sources = c.sources.clone();
        return r;
    }
    'outer: while base <= nfinal {
        let hi = (base + ws - 1).min(nfinal);
        for k in base..=hi {
            let s = (k - 1) as usize * blk;
            let e = (s + blk).min(payload.len());
            c.to_peer(&rc::data((k % 65536) as u16, &payload[s..e]));
        }
        // wait for the ACK of this window
        loop {
            let Some((b, _)) = reply_or_quiet(srv, c) else {
                r.anomalies.push(format!("no acknowledgement for blocks {base}..{hi}"));
                break 'outer;
            };
            match rc::decode(&b) {
                Ok(RPacket::Ack(k)) => {
                    r.acks.push(k);
                    if k == (hi % 65536) as u16 {
                        base = hi + 1;
                        if hi == nfinal {
                            r.completed = true;
                        }
                        break;
                    } else {
                        r.anomalies.push(format!("ACK({k}) while waiting for ACK({hi})"));
                        if r.anomalies.len() > 20 {
                            break 'outer;
                        }
                    }
                }
                Ok(RPacket::Error { code, msg }) => {
                    r.error = Some((code, String::from_utf8_lossy(&msg).to_string()));
                    break 'outer;
                }
                _ => {
                    r.anomalies.push(format!("unexpected {}", rc::describe(&b)));
                    break 'outer;
                }
            }
        }
    }
    if !r.completed {
        c.to_peer_guarded(&rc::error(0, "abort"));
    }
    quiesce();
    while let Some((b, _)) = c.try_recv() {
        r.anomalies.push(format!("datagram after the end: {}", rc::describe(&b)));
    }
    r.sources = c.sources.clone();
    r
}

/// Upload with client-side faults. mode 1: every DATA datagram is sent twice; mode 2: the first transmission of every
/// window goes out in reverse order. The client is a conformant RFC 7440 sender: in-window cumulative ACKs advance it,
/// duplicate/stale ACKs are ignored, and when the server stays quiet it retransmits the window in order.
pub fn upload_faulty(srv: &Srv, name: &[u8], opts: &[(String, String)], payload: &[u8], mode: u8) -> Ul {
    let mut c = Client::new(srv.addr);
    let mut r = Ul::default();
    c.to_server(&rc::request(true, name, opts));
    let t_req = Instant::now();
    let Some((b, _)) = reply_or_quiet(srv, &mut c) else {
        r.first = "none".into();
        r.anomalies.push(format!("no reply to the WRQ after {:?} (threads {}, baseline {}, local port {})", t_req.elapsed(), task_count(), current_baseline(), c.local_port()));
        quiesce();
        return r;
    };
    r.first = rc::describe(&b);
    let mut blk = 512usize;
    let mut ws = 1u64;
    match rc::decode(&b) {
        Ok(RPacket::Oack(o)) => {
            let o = parse_opts(&o);
            if let Some(v) = opt_val(&o, "blksize") {
                blk = (v as usize).max(1);
            }
            if let Some(v) = opt_val(&o, "windowsize") {
                ws = v.max(1);
            }
            r.oack = Some(o);
        }
        Ok(RPacket::Ack(0)) => {}
        Ok(RPacket::Error { code, msg }) => {
            r.error = Some((code, String::from_utf8_lossy(&msg).to_string()));
            quiesce();
            return r;
        }
        _ => {
            r.anomalies.push(format!("unexpected first reply {} from {:?} (server {})", rc::describe(&b), c.sources.last(), srv.addr));
            c.to_peer_guarded(&rc::error(0, "unexpected"));
            quiesce();
            return r;
        }
    }
    let nfinal = (payload.len() / blk) as u64 + 1;
    let block = |k: u64| -> Vec<u8> {
        let s = (k - 1) as usize * blk;
        let e = (s + blk).min(payload.len());
        rc::data((k % 65536) as u16, &payload[s..e])
    };
    let mut base: u64 = 1;
    let mut rounds = 0;
    if !c.transfer_open(srv) {
        r.anomalies.push("the transfer ended right after it was accepted".into());
        quiesce();
        return r;
    }
    let mut foreign_done = false;
    let mut sent_hi: u64 = 0; // highest block ever sent: a cumulative ACK up to it is valid
    'outer: while base <= nfinal {
        let hi = (base + ws - 1).min(nfinal);
        sent_hi = sent_hi.max(hi);
        let mut order: Vec<u64> = (base..=hi).collect();
        if mode == 2 {
            order.reverse();
        }
        let mut first_tx = true;
        loop {
            rounds += 1;
            if rounds > 4 * nfinal + 50 {
                r.anomalies.push("too many rounds".into());
                break 'outer;
            }
            for k in if first_tx { order.clone() } else { (base..=hi).collect() } {
                c.to_peer(&block(k));
                if mode == 1 {
                    c.to_peer(&block(k));
                }
            }
            first_tx = false;
            // collect replies until the server is quiet for a moment
            let mut advanced = false;
            while let Some((b, _)) = c.recv_wait(Duration::from_millis(6)) {
                match rc::decode(&b) {
                    Ok(RPacket::Ack(k)) => {
                        r.acks.push(k);
                        // in-window cumulative ACK?
                        let ka = {
                            let mut x = None;
                            for cand in base..=sent_hi {
                                if (cand % 65536) as u16 == k {
                                    x = Some(cand);
                                }
                            }
                            x
                        };
                        if let Some(ka) = ka {
                            base = ka + 1;
                            advanced = true;
                            if ka == nfinal {
                                r.completed = true;
                            }
                            break;
                        }
                    }
                    Ok(RPacket::Error { code, msg }) => {
                        r.error = Some((code, String::from_utf8_lossy(&msg).to_string()));
                        break 'outer;
                    }
                    _ => {}
                }
            }
            if advanced {
                if mode == 3 && !foreign_done {
                    foreign_done = true;
                    if !foreign_small_download(srv) {
                        r.anomalies.push("the foreign client's small download in the middle of this transfer was not served".into());
                    }
                }
                break;
            }
            if !workers_alive() {
                r.anomalies.push(format!("server gave up while blocks {base}..{hi} were outstanding"));
                break 'outer;
            }
            // let the listener work off what it has before the window is sent again (in single-port mode every datagram
            // passes through it; flooding its socket buffer would make the kernel drop datagrams, an un-modelled loss)
            barrier(srv);
        }
    }
    if !r.completed {
        c.to_peer_guarded(&rc::error(0, "abort"));
    }
    quiesce();
    // duplicates of ours may still be queued at the listener: let it drain before anybody sends the next request
    barrier(srv);
    r.sources = c.sources.clone();
    r
}
