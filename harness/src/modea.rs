//! E1 Mode A: the real Worker against an adversarial answer alphabet (safety properties).
//! One execution = one real `Worker::send` / `Worker::receive` thread driven answer by answer.

use crate::refcodec as rc;
use crate::sim::*;
use crate::util::*;
use serde_json::{json, Value};
use std::time::Duration;
use tftpd::Worker;

#[derive(Clone, Copy, PartialEq, Debug)]
pub enum Role {
    Sender,
    Receiver,
}

#[derive(Clone, Debug)]
pub struct XCfg {
    pub role: Role,
    pub blk: usize,
    pub ws: u16,
    pub len: usize,
    pub handshake: bool,
    pub timeout_s: u64,
    pub repeat: u8,
    pub clean: bool,
    /// 0 = standard packet alphabet without delays, 1 = ACK/timeout alphabet with delays {0,T/2,T-1ns},
    /// 2 = reduced (large windows), 3 = conformant only (no alternatives)
    pub alpha: u8,
    /// after this many answers every further answer is Timeout (silence family)
    pub silence_after: Option<usize>,
    /// after this many answers the next answer is an ERROR datagram (error family)
    pub error_at: Option<usize>,
    /// a peer that acknowledges / answers every duplicate copy (C16)
    pub ack_every_copy: bool,
    pub snapshot_tail: bool,
    /// noise family: from answer `at` on, `count` non-progress answers of one kind (0 duplicate, 1 future/gap,
    /// 2 stray packet of the other direction, 3 undecodable), then silence
    pub noise: Option<(usize, u8, usize)>,
    /// after the noise the conformant answers resume (instead of silence)
    pub noise_resume: bool,
    /// the n-th datagram handed to the socket is refused with an error
    pub send_fail_at: Option<usize>,
    /// the forced ERROR (error_at) carries a NUL-terminated message that is not UTF-8 (a Latin-1 byte): still an ERROR
    pub error_latin1: bool,
    /// error number carried by the forced ERROR (0..7)
    pub error_code: u16,
}

impl XCfg {
    pub fn to_json(&self) -> Value {
        json!({"role": if self.role == Role::Sender { "sender" } else { "receiver" }, "blk": self.blk, "ws": self.ws, "len": self.len,
               "handshake": self.handshake, "timeout_s": self.timeout_s, "repeat": self.repeat, "clean": self.clean, "alpha": self.alpha,
               "silence_after": self.silence_after, "error_at": self.error_at, "ack_every_copy": self.ack_every_copy, "snapshot_tail": self.snapshot_tail,
               "noise": self.noise.map(|(a, k, n)| vec![a as u64, k as u64, n as u64]), "noise_resume": self.noise_resume, "send_fail_at": self.send_fail_at, "error_latin1": self.error_latin1, "error_code": self.error_code})
    }
    pub fn from_json(v: &Value) -> XCfg {
        XCfg {
            role: if v["role"] == "sender" { Role::Sender } else { Role::Receiver },
            blk: v["blk"].as_u64().unwrap_or(8) as usize,
            ws: v["ws"].as_u64().unwrap_or(1) as u16,
            len: v["len"].as_u64().unwrap_or(0) as usize,
            handshake: v["handshake"].as_bool().unwrap_or(false),
            timeout_s: v["timeout_s"].as_u64().unwrap_or(5),
            repeat: v["repeat"].as_u64().unwrap_or(1) as u8,
            clean: v["clean"].as_bool().unwrap_or(true),
            alpha: v["alpha"].as_u64().unwrap_or(0) as u8,
            silence_after: v["silence_after"].as_u64().map(|x| x as usize),
            error_at: v["error_at"].as_u64().map(|x| x as usize),
            ack_every_copy: v["ack_every_copy"].as_bool().unwrap_or(false),
            snapshot_tail: v["snapshot_tail"].as_bool().unwrap_or(false),
            noise: v["noise"].as_array().map(|a| (a[0].as_u64().unwrap() as usize, a[1].as_u64().unwrap() as u8, a[2].as_u64().unwrap() as usize)),
            noise_resume: v["noise_resume"].as_bool().unwrap_or(false),
            send_fail_at: v["send_fail_at"].as_u64().map(|x| x as usize),
            error_latin1: v["error_latin1"].as_bool().unwrap_or(false),
            error_code: v["error_code"].as_u64().unwrap_or(0) as u16,
        }
    }
    pub fn timeout_ns(&self) -> u64 {
        self.timeout_s * 1_000_000_000
    }
    pub fn kfinal(&self) -> u64 {
        (self.len / self.blk) as u64 + 1
    }
    pub fn brief(&self) -> String {
        format!("{} len={} blk={} ws={}{}{}", if self.role == Role::Sender { "send" } else { "recv" }, self.len, self.blk, self.ws, if self.handshake { " +OACK" } else { "" }, if self.repeat > 1 { format!(" x{}", self.repeat) } else { String::new() })
    }
}

pub const SALT_FILE: u64 = 1;

/// proper payload of absolute block K of the transfer's content
pub fn block_payload(cfg: &XCfg, content: &[u8], k: u64) -> Vec<u8> {
    if k == 0 {
        return vec![];
    }
    let s = ((k - 1) as usize).saturating_mul(cfg.blk);
    if s > content.len() {
        return vec![0xEE; cfg.blk];
    }
    let e = (s + cfg.blk).min(content.len());
    content[s..e].to_vec()
}

pub struct Trace {
    pub cfg: XCfg,
    pub events: Vec<Event>,
    pub log: Vec<ChoiceRec>,
    pub panicked: bool,
    pub stuck: bool,
    pub horizon_hit: bool,
    pub replay_error: Option<String>,
    pub now_calls: u64,
    /// receiver: file content after the worker thread has ended (None = absent)
    pub final_file: Option<Vec<u8>>,
    pub content: std::sync::Arc<Vec<u8>>,
}

// ---------------------------------------------------------------- environment views

struct SView {
    any_data: bool,
    hi: u64,
    acked: u64,
}

fn sender_view_update(v: &mut SView, events: &[Event]) {
    for e in events {
        match e {
            Event::Send { bytes, .. } => {
                if let Some(rc::RPacket::Data { block, .. }) = decode(bytes) {
                    let k = abs_after(block, v.acked);
                    v.any_data = true;
                    if k > v.hi {
                        v.hi = k;
                    }
                }
            }
            Event::Recv { answer: Answer::Deliver { bytes, .. }, .. } => {
                if let Some(rc::RPacket::Ack(k)) = decode(bytes) {
                    if v.any_data {
                        let ka = abs_ack(k, v.acked, v.hi);
                        if ka > v.acked && ka <= v.hi {
                            v.acked = ka;
                        }
                    }
                }
            }
            _ => {}
        }
    }
}

pub struct RefRecv {
    pub next: u64,
    pub assembled: Vec<u8>,
    pub block_ends: Vec<usize>, // block_ends[j] = length after j blocks (index 0 = 0)
    pub done: bool,
}

impl RefRecv {
    pub fn new() -> RefRecv {
        RefRecv { next: 1, assembled: vec![], block_ends: vec![0], done: false }
    }
    /// RFC 1350 receiver: accept exactly the next block in sequence; the first short block ends the transfer
    pub fn deliver(&mut self, bytes: &[u8], blk: usize) -> bool {
        let mut b = bytes.to_vec();
        b.truncate(blk + 4);
        if self.done {
            return false;
        }
        if let Some(rc::RPacket::Data { block, data }) = decode(&b) {
            if block == (self.next % 65536) as u16 {
                self.assembled.extend_from_slice(&data);
                self.block_ends.push(self.assembled.len());
                self.next += 1;
                if data.len() < blk {
                    self.done = true;
                }
                return true;
            }
        }
        false
    }
}

fn w16(k: u64) -> u16 {
    (k % 65536) as u16
}

type Alt = (Answer, u8, String);

fn pkt(bytes: Vec<u8>, delay: u64) -> Answer {
    Answer::Deliver { bytes, delay_ns: delay }
}

fn sender_alphabet(cfg: &XCfg, v: &SView, answers: usize) -> Vec<Alt> {
    let t = cfg.timeout_ns();
    let mut a: Vec<Alt> = vec![];
    if !v.any_data {
        // reply to the OACK (handshake)
        a.push((pkt(rc::ack(0), 0), 0, "Ack(0)".into()));
        if cfg.alpha == 3 {
            return a;
        }
        a.push((pkt(rc::error(0, "no"), 0), 1, "Error".into()));
        a.push((Answer::Timeout, 1, "Timeout".into()));
        a.push((pkt(rc::ack(1), 0), 1, "Ack(1)".into()));
        if cfg.alpha == 0 {
            a.push((pkt(rc::data(1, &[1, 2, 3]), 0), 1, "stray Data".into()));
            a.push((pkt(vec![0, 9], 0), 1, "undecodable".into()));
            a.push((pkt(rc::oack(&[("blksize", "8")]), 0), 1, "stray Oack".into()));
        }
        return a;
    }
    if v.acked >= cfg.kfinal() || v.hi == v.acked {
        // nothing outstanding: the transfer is over (or the worker is receiving without having sent) — drain
        a.push((Answer::Timeout, 0, "Timeout(drain)".into()));
        return a;
    }
    let lo = v.acked + 1;
    let hi = v.hi;
    a.push((pkt(rc::ack(w16(hi)), 0), 0, format!("Ack({hi})")));
    if cfg.alpha == 3 {
        return a;
    }
    if cfg.alpha == 4 {
        // words over {conformant answer, timeout}
        if answers < 12 {
            a.push((Answer::Timeout, 0, "Timeout".into()));
        }
        return a;
    }
    if cfg.alpha == 5 {
        // minimal: the conformant answer or a duplicate of the previous acknowledgement
        a.push((pkt(rc::ack(w16(lo - 1)), 0), 1, format!("dup Ack({})", lo - 1)));
        return a;
    }
    let mut acks: Vec<(u64, String)> = vec![];
    let span = hi - lo + 1;
    if span <= 4 {
        for j in lo..hi {
            acks.push((j, format!("partial Ack({j})")));
        }
    } else {
        for j in [lo, lo + 1, hi - 1] {
            acks.push((j, format!("partial Ack({j})")));
        }
    }
    acks.push((lo - 1, format!("dup Ack({})", lo - 1)));
    if lo >= 2 {
        acks.push((lo - 2, format!("stale Ack({})", lo - 2)));
    }
    if cfg.alpha != 2 {
        acks.push((hi + 1, format!("future Ack({})", hi + 1)));
    }
    if cfg.alpha == 0 {
        acks.push((hi + cfg.ws as u64, format!("future Ack({})", hi + cfg.ws as u64)));
        acks.push((lo - 1 + 32768, format!("bogus Ack({})", lo - 1 + 32768)));
    }
    match cfg.alpha {
        1 => {
            // delay dimension: sums cross T exactly at and just below the >= boundary
            for d in [t / 2, t - 1] {
                a.push((pkt(rc::ack(w16(hi)), d), 1, format!("Ack({hi})@{}", if d == t - 1 { "T-1ns" } else { "T/2" })));
            }
            for (k, l) in &acks {
                for d in [0, t / 2, t - 1] {
                    a.push((pkt(rc::ack(w16(*k)), d), 1, format!("{l}@{}", if d == 0 { "0" } else if d == t - 1 { "T-1ns" } else { "T/2" })));
                }
            }
            a.push((Answer::Timeout, 1, "Timeout".into()));
            for d in [t / 2, t - 1] {
                a.push((pkt(vec![0, 9], d), 1, format!("undecodable@{}", if d == t - 1 { "T-1ns" } else { "T/2" })));
            }
        }
        _ => {
            for (k, l) in &acks {
                a.push((pkt(rc::ack(w16(*k)), 0), 1, l.clone()));
            }
            a.push((Answer::Timeout, 1, "Timeout".into()));
            if cfg.alpha == 0 {
                a.push((pkt(rc::error(0, "stop"), 0), 1, "Error".into()));
                a.push((pkt(rc::data(1, &[1, 2, 3]), 0), 1, "stray Data".into()));
                a.push((pkt(rc::oack(&[("blksize", "8")]), 0), 1, "stray Oack".into()));
                a.push((pkt(vec![0, 9], 0), 1, "undecodable".into()));
                a.push((pkt(vec![4], 0), 1, "1-byte".into()));
                a.push((pkt(vec![0, 4, 0], 0), 1, "truncated ACK (3 bytes)".into()));
            }
        }
    }
    a
}

fn receiver_alphabet(cfg: &XCfg, r: &RefRecv, content: &[u8], answers: usize) -> Vec<Alt> {
    let mut a: Vec<Alt> = vec![];
    if r.done {
        a.push((Answer::Timeout, 0, "Timeout(drain)".into()));
        return a;
    }
    let e = r.next;
    let n = cfg.kfinal();
    let proper = block_payload(cfg, content, e);
    a.push((pkt(rc::data(w16(e), &proper), 0), 0, format!("Data({e},len{})", proper.len())));
    if cfg.alpha == 3 {
        return a;
    }
    if cfg.alpha == 4 {
        if answers < 12 {
            a.push((Answer::Timeout, 0, "Timeout".into()));
        }
        return a;
    }
    if e < n && cfg.blk > 0 {
        a.push((pkt(rc::data(w16(e), &proper[..cfg.blk - 1]), 0), 1, format!("premature short Data({e},len{})", cfg.blk - 1)));
        a.push((pkt(rc::data(w16(e), &[]), 0), 1, format!("premature empty Data({e})")));
    }
    if e > 1 {
        a.push((pkt(rc::data(w16(e - 1), &block_payload(cfg, content, e - 1)), 0), 1, format!("dup Data({})", e - 1)));
    }
    a.push((pkt(rc::data(w16(e + 1), &block_payload(cfg, content, e + 1)), 0), 1, format!("gap Data({})", e + 1)));
    if e > cfg.ws as u64 && cfg.ws > 1 {
        a.push((pkt(rc::data(w16(e - cfg.ws as u64), &block_payload(cfg, content, e - cfg.ws as u64)), 0), 1, format!("old Data({})", e - cfg.ws as u64)));
    }
    a.push((Answer::Timeout, 1, "Timeout".into()));
    if cfg.alpha == 0 {
        if proper.len() == cfg.blk {
            let mut over = proper.clone();
            over.push(0x5A);
            a.push((pkt(rc::data(w16(e), &over), 0), 1, format!("oversize Data({e},len{})", over.len())));
        }
        a.push((pkt(rc::error(0, "stop"), 0), 1, "Error".into()));
        a.push((pkt(rc::ack(w16(e)), 0), 1, "stray Ack".into()));
        a.push((pkt(rc::oack(&[("blksize", "8")]), 0), 1, "stray Oack".into()));
        a.push((pkt(vec![0, 9], 0), 1, "undecodable".into()));
        a.push((pkt(vec![0, 3, 1], 0), 1, "truncated DATA (3 bytes)".into()));
        a.push((pkt(vec![0, 3], 0), 1, "truncated DATA (2 bytes)".into()));
    }
    a
}

// ---------------------------------------------------------------- one execution

pub fn e1_dir() -> String {
    let d = format!("{}/e1", scratch_root());
    let _ = std::fs::create_dir_all(&d);
    d
}

thread_local! {
    static CONTENT_CACHE: std::cell::RefCell<Option<(usize, std::sync::Arc<Vec<u8>>)>> = std::cell::RefCell::new(None);
}

pub fn cached_content(len: usize) -> std::sync::Arc<Vec<u8>> {
    CONTENT_CACHE.with(|c| {
        let mut c = c.borrow_mut();
        if let Some((l, v)) = &*c {
            if *l == len {
                return v.clone();
            }
        }
        let v = std::sync::Arc::new(content(len, SALT_FILE));
        *c = Some((len, v.clone()));
        v
    })
}

pub fn horizon(cfg: &XCfg) -> usize {
    4 * (cfg.kfinal() as usize + 8) + 64
}

pub fn run(cfg: &XCfg, prefix: &[u16]) -> Trace {
    let dir = e1_dir();
    let content = cached_content(cfg.len);
    let path = match cfg.role {
        Role::Sender => {
            let p = format!("{dir}/src_{}", cfg.len);
            if std::fs::metadata(&p).map(|m| m.len() as usize != cfg.len).unwrap_or(true) {
                std::fs::write(&p, &content[..]).unwrap();
            }
            p
        }
        Role::Receiver => {
            let p = format!("{dir}/upload");
            // an older, longer file of that name is already there: an accepted upload replaces it entirely
            let _ = std::fs::write(&p, vec![0xA5u8; cfg.len.min(4096) + 97]);
            p
        }
    };
    clock_reset();
    let t = Duration::from_secs(cfg.timeout_s);
    let snap = if cfg.role == Role::Receiver { if cfg.snapshot_tail { Snapshot::Tail } else { Snapshot::Full } } else { Snapshot::None };
    let (sock, drv) = sim_pair(t, snap, &path, 1);
    drv.fail_send_at(cfg.send_fail_at);
    let worker = Worker::new(Box::new(sock), std::path::PathBuf::from(&path), cfg.clean, cfg.blk, t, cfg.ws, cfg.repeat);
    let handle = match cfg.role {
        Role::Sender => worker.send(cfg.handshake),
        Role::Receiver => worker.receive(),
    }
    .expect("spawn");
    let mut ch = Chooser::new(prefix);
    let mut answers = 0usize;
    let hz = horizon(cfg);
    let mut stuck = false;
    let mut horizon_hit = false;
    let mut refr = RefRecv::new();
    let mut copies_seen = 0usize; // for ack_every_copy
    let mut sv = SView { any_data: false, hi: 0, acked: 0 };
    let mut seen = 0usize;
    let mut all_sends: Vec<Vec<u8>> = vec![];
    loop {
        match drv.wait() {
            WState::Closed => break,
            WState::Stuck => {
                stuck = true;
                break;
            }
            WState::Recv(_) => {
                if answers >= hz {
                    horizon_hit = true;
                    break;
                }
                let evs = drv.events_from(seen);
                seen += evs.len();
                if cfg.role == Role::Sender {
                    sender_view_update(&mut sv, &evs);
                }
                if cfg.ack_every_copy {
                    for e in &evs {
                        if let Event::Send { bytes, .. } = e {
                            all_sends.push(bytes.clone());
                        }
                    }
                }
                let ans: Answer;
                if let Some((at, kind, count)) = cfg.noise.filter(|(at, _, c)| answers >= *at && !(cfg.noise_resume && answers >= *at + *c)) {
                    if answers < at + count {
                        ans = noise_answer(cfg, kind, &sv, &refr, &content);
                        let a2 = ans.clone();
                        ch.choose(&[0], &|_| format!("noise: {}", describe_answer(&a2)));
                    } else {
                        ans = Answer::Timeout;
                        ch.choose(&[0], &|_| "Timeout(silence)".into());
                    }
                } else if cfg.silence_after.map(|n| answers >= n).unwrap_or(false) {
                    ans = Answer::Timeout;
                    ch.choose(&[0], &|_| "Timeout(silence)".into());
                } else if cfg.error_at == Some(answers) {
                    ans = if cfg.error_latin1 { pkt(vec![0, 5, 0, cfg.error_code as u8, b'a', 0xE9, b'r', 0], 0) } else { pkt(rc::error(cfg.error_code, "abort"), 0) };
                    ch.choose(&[0], &|_| "Error(forced)".into());
                } else if cfg.ack_every_copy && cfg.repeat > 1 {
                    // a peer that answers every copy: answers the k-th copy of the last burst in turn
                    ans = every_copy_answer(cfg, &all_sends, &mut copies_seen, &refr, &content);
                    ch.choose(&[0], &|_| "answer to a copy".into());
                } else {
                    let alts = match cfg.role {
                        Role::Sender => sender_alphabet(cfg, &sv, answers),
                        Role::Receiver => receiver_alphabet(cfg, &refr, &content, answers),
                    };
                    let costs: Vec<u8> = alts.iter().map(|x| x.1).collect();
                    let c = ch.choose(&costs, &|i| alts[i].2.clone());
                    ans = alts[c].0.clone();
                }
                if cfg.role == Role::Receiver {
                    if let Answer::Deliver { bytes, .. } = &ans {
                        refr.deliver(bytes, cfg.blk);
                    }
                }
                answers += 1;
                drv.answer(ans);
            }
        }
    }
    let panicked = if stuck || horizon_hit {
        // leave the thread parked; it is leaked together with its socket
        std::mem::forget(handle);
        false
    } else {
        handle.join().is_err()
    };
    let now_calls = tftpd::verif::sim_now_calls();
    let events = drv.take_events();
    let final_file = if cfg.role == Role::Receiver { std::fs::read(&path).ok() } else { None };
    Trace { cfg: cfg.clone(), events, log: ch.log.clone(), panicked, stuck, horizon_hit, replay_error: ch.replay_error.clone(), now_calls, final_file, content }
}

fn noise_answer(cfg: &XCfg, kind: u8, sv: &SView, refr: &RefRecv, content: &[u8]) -> Answer {
    match cfg.role {
        Role::Sender => match kind {
            0 => pkt(rc::ack(w16(sv.acked)), 0),           // duplicate of the last valid ACK (ACK 0 at the start)
            1 => pkt(rc::ack(w16(sv.hi + 1)), 0),          // acknowledges a block not sent yet
            2 => pkt(rc::data(1, &[9, 9, 9]), 0),          // stray DATA
            _ => pkt(vec![0, 9], 0),                       // undecodable
        },
        Role::Receiver => {
            let e = refr.next;
            match kind {
                0 => {
                    if e > 1 {
                        pkt(rc::data(w16(e - 1), &block_payload(cfg, content, e - 1)), 0)
                    } else {
                        pkt(rc::data(w16(e + 2), &block_payload(cfg, content, e + 2)), 0)
                    }
                }
                1 => pkt(rc::data(w16(e + 1), &block_payload(cfg, content, e + 1)), 0),
                2 => pkt(rc::ack(w16(e)), 0),
                _ => pkt(vec![0, 9], 0),
            }
        }
    }
}

fn every_copy_answer(cfg: &XCfg, sends: &[Vec<u8>], copies_seen: &mut usize, refr: &RefRecv, content: &[u8]) -> Answer {
    // sender role: ack each DATA copy in emission order; receiver role: send each DATA block repeat times
    match cfg.role {
        Role::Sender => {
            if *copies_seen < sends.len() {
                let b = &sends[*copies_seen];
                *copies_seen += 1;
                if let Some(rc::RPacket::Data { block, .. }) = decode(b) {
                    return pkt(rc::ack(block), 0);
                }
            }
            Answer::Timeout
        }
        Role::Receiver => {
            // every DATA block is delivered `repeat` times (a peer in duplicate mode)
            let idx = *copies_seen;
            *copies_seen += 1;
            let k = (idx / cfg.repeat as usize) as u64 + 1;
            if refr.done && k > cfg.kfinal() {
                return Answer::Timeout;
            }
            let k = k.min(cfg.kfinal());
            pkt(rc::data(w16(k), &block_payload(cfg, content, k)), 0)
        }
    }
}

pub fn replay_text(cfg: &XCfg, choices: &[u16]) -> String {
    let tr = run(cfg, choices);
    let mut s = format!("config: {}\nchoices: {:?}\n", cfg.to_json(), choices);
    for (i, c) in tr.log.iter().enumerate() {
        if c.costs[c.chosen as usize] > 0 {
            s.push_str(&format!("  deviation at answer #{i}: {}\n", c.label));
        }
    }
    for l in describe_events(&tr.events, 200) {
        s.push_str(&format!("  {l}\n"));
    }
    s.push_str(&format!("panicked={} stuck={} horizon_hit={} final_file={:?}\n", tr.panicked, tr.stuck, tr.horizon_hit, tr.final_file.as_ref().map(|f| f.len())));
    let vs = crate::monitors::check_all(&tr);
    for v in vs {
        s.push_str(&format!("  monitor {} [{}]: {}\n", v.clause, v.property_hint.join(","), v.what));
    }
    s
}
