//! C07 through the real Server (what E1 cannot see: the Server wires the socket timeouts and, in single-port mode,
//! routes the peer's ERROR to the transfer): ERROR at every point of short transfers, silence after the first block
//! (retransmission after the default 5 s; give-up after six timeouts with timeout=1).

use crate::loopback::*;
use crate::refcodec::{self as rc, RPacket};
use crate::util::*;
use serde_json::{json, Value};
use std::time::{Duration, Instant};

fn body() -> Vec<u8> {
    content(1100, 71)
}

fn wait_workers_gone(limit: Duration) -> Option<Duration> {
    let t0 = Instant::now();
    while t0.elapsed() < limit {
        if !workers_alive() {
            return Some(t0.elapsed());
        }
        std::thread::sleep(Duration::from_millis(2));
    }
    None
}

/// ERROR sent by the peer after `k` exchanged steps of a transfer; the transfer must end at once and emit nothing more.
fn error_case(srv: &Srv, kind: &str, k: usize) -> Vec<(String, String)> {
    let mut viol = vec![];
    let data = body();
    let name_dl = "c07_file";
    let p = format!("{}/{}", srv.send_dir, name_dl);
    if !std::path::Path::new(&p).exists() {
        std::fs::write(&p, &data).unwrap();
    }
    let mut c = Client::new(srv.addr);
    let desc = format!("{kind}, ERROR from the peer after {k} step(s)");
    let up_name = format!("c07_up_{}", std::process::id());
    let mut steps_done = 0usize;
    let mut transfer_over = false;
    match kind {
        "download" | "download-windowed" => {
            let opts: Vec<(String, String)> = if kind == "download" { vec![] } else { vec![("blksize".into(), "256".into()), ("windowsize".into(), "2".into())] };
            c.to_server(&rc::request(false, name_dl.as_bytes(), &opts));
            let mut expect_block = 1u16;
            let mut blk = 512usize;
            loop {
                let Some((b, _)) = c.recv_wait(BACKSTOP) else {
                    viol.push(("e2-no-reply".into(), format!("{desc}: no reply")));
                    break;
                };
                let pk = rc::decode(&b);
                // a step = one complete burst of the server (OACK, or a whole window, or the final block)
                let burst_complete = match &pk {
                    Ok(RPacket::Data { block, data }) => kind == "download" || block % 2 == 0 || data.len() < blk,
                    _ => true,
                };
                if !burst_complete {
                    continue;
                }
                if steps_done == k {
                    break; // answer this burst with an ERROR instead of an ACK
                }
                steps_done += 1;
                match pk {
                    Ok(RPacket::Oack(_)) => {
                        blk = 256;
                        c.to_peer(&rc::ack(0));
                    }
                    Ok(RPacket::Data { block, data }) => {
                        let _ = expect_block;
                        expect_block = block + 1;
                        c.to_peer(&rc::ack(block));
                        if data.len() < blk {
                            transfer_over = true;
                            break;
                        }
                    }
                    _ => break,
                }
            }
        }
        _ => {
            c.to_server(&rc::request(true, up_name.as_bytes(), &[]));
            let mut next = 1u16;
            let mut final_sent = false;
            loop {
                let Some((b, _)) = c.recv_wait(BACKSTOP) else {
                    viol.push(("e2-no-reply".into(), format!("{desc}: no reply")));
                    break;
                };
                if final_sent {
                    transfer_over = true; // this was the acknowledgement of the final block
                    break;
                }
                if steps_done == k {
                    break;
                }
                steps_done += 1;
                match rc::decode(&b) {
                    Ok(RPacket::Ack(_)) => {
                        let a = (next as usize - 1) * 512;
                        if a > data.len() {
                            transfer_over = true;
                            break;
                        }
                        let e = (a + 512).min(data.len());
                        c.to_peer(&rc::data(next, &data[a..e]));
                        if e - a < 512 {
                            final_sent = true;
                        }
                        next += 1;
                    }
                    _ => break,
                }
            }
        }
    }
    if !transfer_over && viol.is_empty() {
        barrier(srv); // the listener has finished the request, so the transfer thread exists by now
        c.to_peer(&rc::error(0, "peer aborts"));
        // the transfer must end at once
        match wait_workers_gone(BACKSTOP) {
            None => viol.push(("e2-error-ignored".into(), format!("{desc}: the transfer thread is still alive 3 s after the peer's ERROR"))),
            Some(_) => {}
        }
        // and emit nothing more
        let mut extra = vec![];
        while let Some((b, _)) = c.recv_wait(Duration::from_millis(30)) {
            extra.push(rc::describe(&b));
            if extra.len() > 5 {
                break;
            }
        }
        if !extra.is_empty() {
            viol.push(("e2-send-after-error".into(), format!("{desc}: datagrams after the peer's ERROR: {:?}", extra)));
        }
    }
    if workers_alive() {
        // do not leave a lingering transfer behind (it would need 30 s to die)
        c.to_peer_guarded(&rc::error(0, "end"));
        quiesce();
    }
    let _ = std::fs::remove_file(format!("{}/{}", srv.recv_dir, up_name));
    viol
}

/// silence after the first data block
fn silence_case(srv: &Srv, kind: &str) -> (Vec<(String, String)>, Value) {
    let mut viol = vec![];
    let data = body();
    let p = format!("{}/c07_file", srv.send_dir);
    if !std::path::Path::new(&p).exists() {
        std::fs::write(&p, &data).unwrap();
    }
    let mut c = Client::new(srv.addr);
    let mut info = json!({"kind": kind});
    match kind {
        "retransmit-default" => {
            // no options: RFC 1350 defaults; the first retransmission must come after the default interval (5 s)
            c.to_server(&rc::request(false, b"c07_file", &[]));
            let first = c.recv_wait(BACKSTOP);
            let t1 = Instant::now();
            if first.is_none() {
                viol.push(("e2-no-reply".into(), "plain RRQ: no DATA(1)".into()));
            } else {
                match c.recv_wait(Duration::from_millis(7000)) {
                    None => viol.push(("e2-no-retransmission".into(), "plain RRQ, peer silent after DATA(1): no retransmission within 7 s (default interval 5 s) — a silent peer is never noticed".into())),
                    Some((b, _)) => {
                        let gap = t1.elapsed().as_secs_f64();
                        info["gap_s"] = json!(gap);
                        if gap < 4.95 {
                            viol.push(("e2-early-retransmission".into(), format!("plain RRQ: {} retransmitted after {:.2} s, before the default interval of 5 s", rc::describe(&b), gap)));
                        }
                    }
                }
                c.to_peer_guarded(&rc::error(0, "done"));
            }
        }
        "giveup-download" | "giveup-upload" => {
            // timeout=1: after six consecutive timeouts the transfer gives up (bounded: we allow up to 16)
            let write = kind == "giveup-upload";
            let name = if write { format!("c07_giveup_{}", std::process::id()) } else { "c07_file".to_string() };
            c.to_server(&rc::request(write, name.as_bytes(), &[("timeout".into(), "1".into())]));
            let first = c.recv_wait(BACKSTOP);
            match first.as_ref().map(|(b, _)| rc::decode(b)) {
                Some(Ok(RPacket::Oack(_))) => {
                    barrier(srv); // the transfer thread has been spawned
                    if !write {
                        c.to_peer(&rc::ack(0));
                    }
                    let t0 = Instant::now();
                    let mut copies = 0;
                    // stay silent and count what arrives until the transfer thread is gone
                    loop {
                        if let Some((b, _)) = c.recv_wait(Duration::from_millis(50)) {
                            if matches!(rc::decode(&b), Ok(RPacket::Data { .. })) {
                                copies += 1;
                            }
                        }
                        if !workers_alive() {
                            break;
                        }
                        if t0.elapsed() > Duration::from_secs(19) {
                            viol.push(("e2-no-give-up".into(), format!("{kind}: peer silent, timeout=1: the transfer is still alive after 19 s (16 timeouts would be 16 s)")));
                            break;
                        }
                    }
                    let took = t0.elapsed().as_secs_f64();
                    info["gave_up_after_s"] = json!(took);
                    info["data_copies"] = json!(copies);
                    if took < 1.9 && viol.is_empty() {
                        viol.push(("e2-gave-up-early".into(), format!("{kind}: the transfer ended {:.2} s after the peer fell silent (timeout=1, retry budget 6)", took)));
                    }
                    if !write && copies > 17 {
                        viol.push(("e2-retransmits-too-often".into(), format!("{kind}: {copies} copies of DATA(1)")));
                    }
                    // the acknowledged interval is 1 s: every second that passes must bring a retransmission (DATA(1) once
                    // plus one copy per elapsed interval but the last)
                    if !write && viol.is_empty() && (copies as f64) < took.floor() - 0.5 {
                        viol.push(("e2-retransmits-too-rarely".into(), format!("{kind}: only {copies} copies of DATA(1) in {:.1} s although timeout=1 was acknowledged", took)));
                    }
                    if write && srv.cfg.keep == false && std::path::Path::new(&format!("{}/{}", srv.recv_dir, name)).exists() && viol.is_empty() {
                        viol.push(("e2-partial-left".into(), format!("{kind}: the abandoned upload's file is still there (clean-on-error)")));
                    }
                    if workers_alive() {
                        c.to_peer_guarded(&rc::error(0, "end"));
                    }
                }
                other => viol.push(("e2-no-oack".into(), format!("{kind}: timeout=1 not acknowledged: {:?}", other.map(|r| r.is_ok())))),
            }
            if write {
                let _ = std::fs::remove_file(format!("{}/{}", srv.recv_dir, name));
            }
        }
        _ => {}
    }
    quiesce();
    (viol, info)
}

/// two transfers one after the other from the SAME client endpoint: the second one must end as cleanly as the first
fn reuse_case(srv: &Srv, windowed: bool) -> Vec<(String, String)> {
    // windowed: blksize 8 / windowsize 3 and only the first block of the first window acknowledged (C08: transmission resumes at k+1)
    let opts: Vec<(String, String)> = if windowed { vec![("blksize".into(), "8".into()), ("windowsize".into(), "3".into())] } else { vec![] };
    let ack_mode = if windowed { 4 } else { 0 };
    let mut viol = vec![];
    let data = body();
    let p = format!("{}/c07_file", srv.send_dir);
    if !std::path::Path::new(&p).exists() {
        std::fs::write(&p, &data).unwrap();
    }
    let mut c = Client::new(srv.addr);
    for round in 1..=2 {
        c.reset_for_reuse();
        let r = download_on(&mut c, srv, b"c07_file", &opts, None, ack_mode);
        if !r.completed || r.data != data || (windowed && !r.anomalies.is_empty()) {
            viol.push(("e2-reuse-failed".into(), format!("download #{round} from the same client endpoint: completed={} error={:?} anomalies={:?}", r.completed, r.error, &r.anomalies[..r.anomalies.len().min(3)])));
            break;
        }
        // after the final ACK the transfer is over: no thread left, nothing emitted any more
        if wait_workers_gone(BACKSTOP).is_none() {
            viol.push(("e2-reuse-not-ended".into(), format!("download #{round} from the same client endpoint: the transfer thread is still alive 3 s after the final ACK")));
            c.to_peer_guarded(&rc::error(0, "end"));
            quiesce();
            break;
        }
        if let Some((b, _)) = c.recv_wait(Duration::from_millis(20)) {
            viol.push(("e2-reuse-send-after-end".into(), format!("download #{round} from the same client endpoint: {} arrived after the final ACK", rc::describe(&b))));
        }
    }
    viol
}

/// C04 through the real Server: with timeout=1 acknowledged, k < 6 consecutive losses of the same datagram are survived
/// (the Server must hand the SAME interval to the socket and to the worker).
fn consecutive_loss_case(srv: &Srv, upload: bool, k: usize) -> Vec<(String, String)> {
    let mut viol = vec![];
    let data = body();
    let p = format!("{}/c07_file", srv.send_dir);
    if !std::path::Path::new(&p).exists() {
        std::fs::write(&p, &data).unwrap();
    }
    let mut c = Client::new(srv.addr);
    let opts = vec![("timeout".to_string(), "1".to_string())];
    let desc = format!("{} with timeout=1, the same datagram lost {k} times in a row", if upload { "upload" } else { "download" });
    if !upload {
        c.to_server(&rc::request(false, b"c07_file", &opts));
        if !matches!(c.recv_wait(BACKSTOP).map(|(b, _)| rc::decode(&b)), Some(Ok(RPacket::Oack(_)))) {
            return vec![("e2-no-oack".into(), format!("{desc}: no OACK"))];
        }
        c.to_peer(&rc::ack(0));
        // DATA(1) and its first k-1 retransmissions are "lost" (we ignore them); the k-th retransmission is acknowledged
        let mut seen = 0;
        let mut got = vec![];
        let t0 = Instant::now();
        let mut expect = 1u16;
        while t0.elapsed() < Duration::from_secs(k as u64 + 6) {
            let Some((b, _)) = c.recv_wait(Duration::from_millis(200)) else {
                if !workers_alive() {
                    break;
                }
                continue;
            };
            if let Ok(RPacket::Data { block, data: d }) = rc::decode(&b) {
                if block == 1 && expect == 1 {
                    seen += 1;
                    if seen <= k {
                        continue; // lost
                    }
                }
                if block == expect {
                    got.extend_from_slice(&d);
                    c.to_peer(&rc::ack(block));
                    expect += 1;
                    if d.len() < 512 {
                        break;
                    }
                }
            }
        }
        if got != data {
            viol.push(("e2-loss-not-survived".into(), format!("{desc}: the download did not complete ({} of {} bytes; {} copies of DATA(1) seen)", got.len(), data.len(), seen)));
        }
    } else {
        let name = format!("c04_loss_{}", std::process::id());
        c.to_server(&rc::request(true, name.as_bytes(), &opts));
        if !matches!(c.recv_wait(BACKSTOP).map(|(b, _)| rc::decode(&b)), Some(Ok(RPacket::Oack(_)))) {
            return vec![("e2-no-oack".into(), format!("{desc}: no OACK"))];
        }
        // our DATA(1) is "lost" k times: the server sees k receive timeouts, then the block arrives
        std::thread::sleep(Duration::from_millis(k as u64 * 1000 + 300));
        let mut ok = true;
        for (i, (a, b)) in [(0usize, 512usize), (512, 1024), (1024, 1100)].iter().enumerate() {
            c.to_peer(&rc::data(i as u16 + 1, &data[*a..*b]));
            match c.recv_wait(BACKSTOP).map(|(b, _)| rc::decode(&b)) {
                Some(Ok(RPacket::Ack(x))) if x == i as u16 + 1 => {}
                other => {
                    ok = false;
                    viol.push(("e2-loss-not-survived".into(), format!("{desc}: DATA({}) was answered with {:?}", i + 1, other.map(|r| r.map(|p| format!("{:?}", p).chars().take(40).collect::<String>())))));
                    break;
                }
            }
        }
        quiesce();
        let path = format!("{}/{}", srv.recv_dir, name);
        if ok && std::fs::read(&path).ok().as_deref() != Some(&data[..]) {
            viol.push(("e2-loss-not-survived".into(), format!("{desc}: the stored file differs")));
        }
        let _ = std::fs::remove_file(&path);
    }
    if workers_alive() {
        c.to_peer_guarded(&rc::error(0, "end"));
    }
    quiesce();
    viol
}

pub fn cell(spec: &Value) -> Value {
    let cfg = SrvCfg::from_json(&spec["srv"]);
    let mut c = Counters::default();
    let srv = match if cfg.single { server_fresh(&cfg) } else { server_for(&cfg) } {
        Ok(s) => s,
        Err(e) => return json!({"machinery_error": format!("server start: {e}")}),
    };
    let mut all: Vec<(String, String)> = vec![];
    match spec["family"].as_str().unwrap_or("") {
        "error" => {
            for kind in ["download", "download-windowed", "upload"] {
                for k in 0..5usize {
                    let v = error_case(&srv, kind, k);
                    c.executions += 1;
                    c.states += 1;
                    c.transitions += k as u64 + 2;
                    c.nontrivial += 1;
                    c.trace_hashes.insert(fnv64(format!("{kind}{k}{}", cfg.single).as_bytes()));
                    all.extend(v);
                }
            }
            c.samples.push(json!({"srv": cfg.brief(), "family": "peer ERROR after k = 0..4 steps of a lock-step download, a windowed download and an upload"}));
        }
        "loss" => {
            let upload = spec["upload"].as_bool().unwrap();
            let k = spec["k"].as_u64().unwrap() as usize;
            let v = consecutive_loss_case(&srv, upload, k);
            c.executions += 1;
            c.states += 1;
            c.transitions += k as u64 + 6;
            c.nontrivial += 1;
            c.trace_hashes.insert(fnv64(format!("loss{upload}{k}{}", cfg.single).as_bytes()));
            c.samples.push(json!({"srv": cfg.brief(), "family": "consecutive losses through the real Server", "upload": upload, "k": k}));
            all.extend(v);
        }
        "reuse" => {
            let v = reuse_case(&srv, spec["windowed"].as_bool().unwrap_or(false));
            c.executions += 1;
            c.states += 1;
            c.transitions += 8;
            c.nontrivial += 1;
            c.trace_hashes.insert(fnv64(format!("reuse{}", cfg.single).as_bytes()));
            all.extend(v);
        }
        kind => {
            let (v, info) = silence_case(&srv, kind);
            c.executions += 1;
            c.states += 1;
            c.transitions += 8;
            c.nontrivial += 1;
            c.trace_hashes.insert(fnv64(format!("{kind}{}", cfg.single).as_bytes()));
            c.samples.push(json!({"srv": cfg.brief(), "family": "peer silence after the first block", "observed": info}));
            c.extra.insert(format!("real_server_{}_{}", kind.replace('-', "_"), if cfg.single { "single_port" } else { "multi_port" }), info.clone());
            all.extend(v);
        }
    }
    let prop = spec["property"].as_str().unwrap_or("C07").to_string();
    for (clause, what) in all {
        c.violations.push(Violation { property: prop.clone(), clause, facts: facts(&[("single", json!(cfg.single))]), what: format!("[{}] {}", cfg.brief(), what), replay: json!({"engine": "c07_e2", "spec": spec}), weight: 300 });
    }
    if !quiesce() {
        c.machinery_errors.push("server not quiescent at the end of a C07 E2 cell".into());
    }
    c.to_json()
}

pub fn cells(thorough: bool) -> Vec<Value> {
    let mut v = vec![];
    for single in [false, true] {
        let mut s = SrvCfg::basic();
        s.single = single;
        s.overwrite = true;
        // the wall-clock cells first so that they overlap with everything else
        v.push(json!({"srv": s.to_json(), "family": "giveup-download"}));
        v.push(json!({"srv": s.to_json(), "family": "giveup-upload"}));
        v.push(json!({"srv": s.to_json(), "family": "retransmit-default"}));
        v.push(json!({"srv": s.to_json(), "family": "error"}));
        v.push(json!({"srv": s.to_json(), "family": "reuse"}));
        let _ = thorough;
    }
    v
}

pub fn loss_cells() -> Vec<Value> {
    let mut v = vec![];
    for single in [false, true] {
        let mut s = SrvCfg::basic();
        s.single = single;
        s.overwrite = true;
        for upload in [false, true] {
            for k in [4usize, 2, 1] {
                v.push(json!({"srv": s.to_json(), "family": "loss", "upload": upload, "k": k, "property": "C04"}));
            }
        }
    }
    v
}

pub fn replay(v: &Value) -> String {
    let r = cell(&v["spec"]);
    format!("{}", r["violations"])
}
