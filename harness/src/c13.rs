//! C13 clean-up of failed uploads.
//!  (1) E1 Mode A receiver: every abort point x cause (peer ERROR, peer silence, write error via RLIMIT_FSIZE) x {clean, keep}.
//!  (2) E1 two real Workers on one path: a stale upload (accepted first, fails) and a fresh one (accepted later, completes),
//!      all interleavings of their steps.
//!  (3) E2: the same history through the real accept logic (retransmitted WRQ) in overwrite and no-overwrite mode.

use crate::e1_checks::{base_cfg, cell_spec};
use crate::loopback::*;
use crate::modea::{block_payload, e1_dir, Role, XCfg};
use crate::refcodec::{self as rc, RPacket};
use crate::sim::*;
use crate::util::*;
use crate::{Outcome, Tier};
use serde_json::{json, Value};
use std::time::Duration;
use tftpd::Worker;

// ---------------------------------------------------------------- (1b) write error injection

fn set_fsize_limit(bytes: Option<u64>) {
    unsafe {
        libc::signal(libc::SIGXFSZ, libc::SIG_IGN);
        let mut r: libc::rlimit = std::mem::zeroed();
        libc::getrlimit(libc::RLIMIT_FSIZE, &mut r);
        r.rlim_cur = match bytes {
            Some(b) => b as libc::rlim_t,
            None => r.rlim_max,
        };
        libc::setrlimit(libc::RLIMIT_FSIZE, &r);
    }
}

pub fn fsize_cell(spec: &Value) -> Value {
    // a Mode A cell run with a soft RLIMIT_FSIZE so that the worker's write fails at a chosen point
    let limit = spec["fsize"].as_u64().unwrap();
    // make sure the source/scratch files exist before the limit applies
    let _ = e1_dir();
    set_fsize_limit(Some(limit));
    let v = crate::e1_checks::modea_cell(spec);
    set_fsize_limit(None);
    v
}

// ---------------------------------------------------------------- (2) two workers, one path

#[derive(Clone, Debug)]
pub struct TwoCfg {
    pub blk: usize,
    pub ws: u16,
    pub n_blocks: usize, // blocks of the upload (last one short)
    pub clean: bool,
    pub w1_data: usize,   // DATA blocks the stale worker receives before failing
    pub w1_silence: bool, // fail by 6 timeouts (else by peer ERROR)
}

impl TwoCfg {
    fn to_json(&self) -> Value {
        json!({"blk": self.blk, "ws": self.ws, "n_blocks": self.n_blocks, "clean": self.clean, "w1_data": self.w1_data, "w1_silence": self.w1_silence})
    }
    fn from_json(v: &Value) -> TwoCfg {
        TwoCfg { blk: v["blk"].as_u64().unwrap() as usize, ws: v["ws"].as_u64().unwrap() as u16, n_blocks: v["n_blocks"].as_u64().unwrap() as usize, clean: v["clean"].as_bool().unwrap(), w1_data: v["w1_data"].as_u64().unwrap() as usize, w1_silence: v["w1_silence"].as_bool().unwrap() }
    }
    fn brief(&self) -> String {
        format!("two uploads of one name: blk={} ws={} blocks={} {} stale worker gets {} DATA then {}", self.blk, self.ws, self.n_blocks, if self.clean { "clean-on-error" } else { "keep-on-error" }, self.w1_data, if self.w1_silence { "silence" } else { "ERROR" })
    }
    fn xcfg(&self) -> XCfg {
        base_cfg(Role::Receiver, (self.n_blocks - 1) * self.blk + 3, self.blk, self.ws)
    }
}

struct W {
    drv: Driver,
    handle: Option<std::thread::JoinHandle<()>>,
    next_block: u64,
    steps_left: usize,
    final_acked: bool,
    closed: bool,
}

pub struct TwoResult {
    pub viol: Vec<(String, String, serde_json::Map<String, Value>)>,
    pub log: Vec<ChoiceRec>,
    pub trace: Vec<String>,
    pub steps: u64,
    pub hash: u64,
    pub machinery: Option<String>,
}

pub fn run_two(c: &TwoCfg, prefix: &[u16]) -> TwoResult {
    let x = c.xcfg();
    let content = content(x.len, 7);
    let path = format!("{}/twoowner", e1_dir());
    let _ = std::fs::remove_file(&path);
    clock_reset();
    let t = Duration::from_secs(5);
    let mut ch = Chooser::new(prefix);
    let mut trace: Vec<String> = vec![];
    let mut viol: Vec<(String, String, serde_json::Map<String, Value>)> = vec![];
    let mut machinery = None;
    let start = |id: u16| -> W {
        let (sock, drv) = sim_pair(t, Snapshot::None, &path, id);
        let worker = Worker::new(Box::new(sock), std::path::PathBuf::from(&path), c.clean, c.blk, t, c.ws, 1);
        let handle = worker.receive().expect("spawn");
        W { drv, handle: Some(handle), next_block: 1, steps_left: 0, final_acked: false, closed: false }
    };
    // order of acceptance = order of receive() calls; each worker has created the file before the next starts
    let mut w1 = start(1);
    if w1.drv.wait() == WState::Stuck {
        machinery = Some("stale worker did not reach its first receive".to_string());
    }
    let mut w2 = start(2);
    if w2.drv.wait() == WState::Stuck {
        machinery = Some("fresh worker did not reach its first receive".to_string());
    }
    w1.steps_left = c.w1_data + if c.w1_silence { 6 } else { 1 };
    w2.steps_left = c.n_blocks;
    let mut steps = 0u64;
    let mut w2_completed_at: Option<u64> = None;
    let observe = |viol: &mut Vec<(String, String, serde_json::Map<String, Value>)>, when: &str, w1_ended: bool| {
        // from the moment the most recently accepted upload has completed, the file holds exactly its content
        let f = std::fs::read(&path).ok();
        if f.as_deref() != Some(&content[..]) {
            let how = match &f {
                None => "removed".to_string(),
                Some(b) => format!("altered ({} bytes instead of {})", b.len(), content.len()),
            };
            viol.push((
                "two-owner-completed-file-lost".into(),
                format!("the later upload completed, but {when} the file is {how}"),
                facts(&[("effect", json!(if f.is_none() { "removed" } else { "altered" })), ("after_stale_end", json!(w1_ended))]),
            ));
        }
    };
    let mut guard = 0;
    loop {
        guard += 1;
        if guard > 500 {
            machinery = Some("two-worker execution did not end".into());
            break;
        }
        // refresh states
        for w in [&mut w1, &mut w2] {
            if !w.closed {
                match w.drv.wait() {
                    WState::Closed => {
                        w.closed = true;
                        if let Some(h) = w.handle.take() {
                            let _ = h.join();
                        }
                    }
                    WState::Stuck => machinery = Some("worker stuck".into()),
                    WState::Recv(_) => {}
                }
            }
        }
        if let Some(_) = w2_completed_at {
            if w2.closed {
                observe(&mut viol, if w1.closed { "after the stale transfer had ended" } else { "while the stale transfer was still open" }, w1.closed);
            }
        }
        let can1 = !w1.closed && w1.steps_left > 0;
        let can2 = !w2.closed && w2.steps_left > 0;
        if !can1 && !can2 {
            // drain: workers still open get timeouts until they end
            let mut progressed = false;
            for w in [&mut w1, &mut w2] {
                if !w.closed {
                    w.drv.answer(Answer::Timeout);
                    progressed = true;
                }
            }
            if !progressed {
                break;
            }
            continue;
        }
        let who = if can1 && can2 { ch.choose(&[0, 0], &|i| if i == 0 { "step fresh worker".into() } else { "step stale worker".into() }) } else if can2 { 0 } else { 1 };
        steps += 1;
        if who == 0 {
            let k = w2.next_block;
            let p = block_payload(&x, &content, k);
            trace.push(format!("fresh <- DATA({k},len{})", p.len()));
            w2.drv.answer(Answer::Deliver { bytes: rc::data((k % 65536) as u16, &p), delay_ns: 0 });
            w2.next_block += 1;
            w2.steps_left -= 1;
            if w2.steps_left == 0 {
                // wait for the worker to acknowledge the final block and end
                loop {
                    match w2.drv.wait() {
                        WState::Closed => break,
                        WState::Recv(_) => w2.drv.answer(Answer::Timeout),
                        WState::Stuck => {
                            machinery = Some("fresh worker stuck at the end".into());
                            break;
                        }
                    }
                }
                w2.closed = true;
                if let Some(h) = w2.handle.take() {
                    let _ = h.join();
                }
                let evs = w2.drv.events_from(0);
                w2.final_acked = evs.iter().any(|e| matches!(e, Event::Send { bytes, .. } if matches!(decode(bytes), Some(RPacket::Ack(a)) if a as usize == c.n_blocks)));
                if w2.final_acked {
                    w2_completed_at = Some(steps);
                    trace.push("fresh -> ACK(final), completed".into());
                    observe(&mut viol, "right after its completion", w1.closed);
                } else {
                    trace.push("fresh worker ended WITHOUT acknowledging the final block".into());
                }
            }
        } else {
            let data_steps_done = c.w1_data + if c.w1_silence { 6 } else { 1 } - w1.steps_left;
            if data_steps_done < c.w1_data {
                let k = w1.next_block;
                let p = block_payload(&x, &content, k);
                trace.push(format!("stale <- DATA({k},len{})", p.len()));
                w1.drv.answer(Answer::Deliver { bytes: rc::data((k % 65536) as u16, &p), delay_ns: 0 });
                w1.next_block += 1;
            } else if c.w1_silence {
                trace.push("stale <- Timeout".into());
                w1.drv.answer(Answer::Timeout);
            } else {
                trace.push("stale <- ERROR".into());
                w1.drv.answer(Answer::Deliver { bytes: rc::error(0, "stale"), delay_ns: 0 });
            }
            w1.steps_left -= 1;
        }
    }
    if w2_completed_at.is_some() {
        observe(&mut viol, "at the end of the history", true);
    }
    let mut h = Hasher64::new();
    for t in &trace {
        h.feed(t.as_bytes());
    }
    h.feed_u64(viol.len() as u64);
    // deduplicate identical observations
    viol.sort_by(|a, b| (a.0.clone(), a.1.clone()).cmp(&(b.0.clone(), b.1.clone())));
    viol.dedup_by(|a, b| a.0 == b.0 && a.2 == b.2);
    let _ = std::fs::remove_file(&path);
    TwoResult { viol, log: ch.log.clone(), trace, steps, hash: h.0, machinery }
}

pub fn two_cell(spec: &Value) -> Value {
    let c0 = TwoCfg::from_json(&spec["cfg"]);
    let mut c = Counters::default();
    let mut hashes = std::collections::BTreeSet::new();
    let mut sample = None;
    let stats = explore(0, 1_000_000, &mut |prefix: &[u16]| {
        let r = run_two(&c0, prefix);
        if hashes.insert(r.hash) {
            c.nontrivial += 1;
        }
        if let Some(m) = &r.machinery {
            c.machinery_errors.push(format!("{m} in {}", c0.brief()));
        }
        let choices: Vec<u16> = r.log.iter().map(|x| x.chosen).collect();
        for (clause, what, f) in &r.viol {
            c.violations.push(Violation {
                property: "C13".into(),
                clause: clause.clone(),
                facts: f.clone(),
                what: format!("[{}] history {:?}: {}", c0.brief(), r.trace, what),
                replay: json!({"engine": "c13_two", "cfg": c0.to_json(), "choices": choices, "trace": r.trace}),
                weight: r.trace.len() as u64,
            });
        }
        if c.violations.len() > 300 {
            c.trim_violations(2);
        }
        if sample.is_none() && choices.iter().any(|x| *x == 1) {
            sample = Some(json!({"cfg": c0.brief(), "history": r.trace}));
        }
        (r.log, r.steps)
    });
    c.executions = stats.executions;
    c.states = stats.executions;
    c.transitions = stats.transitions;
    c.add_extra("distinct_traces", hashes.len() as u64);
    for h in hashes.iter().take(16) {
        c.trace_hashes.insert(*h);
    }
    c.samples.push(sample.unwrap_or(json!({"cfg": c0.brief()})));
    c.trim_violations(2);
    c.to_json()
}

// ---------------------------------------------------------------- (3) E2: retransmitted WRQ through the real accept logic

fn e2_history(srv: &Srv, cfg: &SrvCfg, order: &[u8], kill_by_error: bool, natural_death: bool) -> (Vec<(String, String, serde_json::Map<String, Value>)>, Vec<String>) {
    // natural_death: request timeout=1 and let the stale transfer run out of retries by itself (6 s of real time)
    let opts: Vec<(String, String)> = if natural_death { vec![("timeout".into(), "1".into())] } else { vec![] };
    // order: sequence over {0 = next DATA to transfer 2, 1 = ERROR (or nothing) to transfer 1}
    let mut viol = vec![];
    let mut trace = vec![];
    let name = format!("c13_{}", std::process::id());
    let path = format!("{}/{}", srv.recv_dir, name);
    let _ = std::fs::remove_file(&path);
    let body = content(700, 99);
    let mut c1 = Client::new(srv.addr);
    c1.to_server(&rc::request(true, name.as_bytes(), &opts));
    let r1 = c1.recv_wait(BACKSTOP);
    trace.push(format!("WRQ #1 -> {}", r1.as_ref().map(|(b, _)| rc::describe(b)).unwrap_or("none".into())));
    // the first worker creates the file in its own thread: wait for it so that the history is well defined
    let t0 = std::time::Instant::now();
    while !std::path::Path::new(&path).exists() && t0.elapsed() < BACKSTOP {
        std::thread::yield_now();
    }
    // the "retransmitted" request: same endpoint in single-port mode would replace the routing entry; use the same socket
    let peer1 = c1.peer;
    c1.to_server(&rc::request(true, name.as_bytes(), &opts));
    let r2 = c1.recv_wait(BACKSTOP);
    trace.push(format!("WRQ #2 (retransmitted) -> {}", r2.as_ref().map(|(b, _)| rc::describe(b)).unwrap_or("none".into())));
    let second_accepted = matches!(r2.as_ref().map(|(b, _)| rc::decode(b)), Some(Ok(RPacket::Ack(0))) | Some(Ok(RPacket::Oack(_))));
    let peer2 = r2.as_ref().map(|(_, from)| *from);
    if !cfg.overwrite {
        // no-overwrite: the second request must be refused with ERROR 6 and transfer 1 must be untouched
        match r2.as_ref().map(|(b, _)| rc::decode(b)) {
            Some(Ok(RPacket::Error { code: 6, .. })) => {}
            other => viol.push(("retransmitted-wrq-not-refused".into(), format!("second WRQ for an existing name without --overwrite was answered with {:?}", other.map(|x| x.map(|p| format!("{:?}", p).chars().take(40).collect::<String>()))), facts(&[("overwrite", json!(false))]))),
        }
        // transfer 1 continues and completes
        let mut ok = true;
        for (k, (a, b)) in [(1u16, (0usize, 512usize)), (2, (512, 700))] {
            let _ = c1.sock.send_to(&rc::data(k, &body[a..b]), peer1.unwrap_or(srv.addr));
            match c1.recv_wait(BACKSTOP).map(|(b, _)| rc::decode(&b)) {
                Some(Ok(RPacket::Ack(x))) if x == k => {}
                other => {
                    ok = false;
                    trace.push(format!("transfer 1 DATA({k}) -> {:?}", other.map(|r| r.is_ok())));
                }
            }
        }
        quiesce();
        if !ok || std::fs::read(&path).ok().as_deref() != Some(&body[..]) {
            viol.push(("first-transfer-disturbed".into(), "the refused retransmitted WRQ disturbed the first transfer (it did not complete byte-identically)".into(), facts(&[("overwrite", json!(false))])));
        }
        // a late duplicate of the request, after the upload has completed: refused again, and the completed file stays
        // as it is from then on (also after everything the request may have started has run its course)
        let mut c3 = Client::new(srv.addr);
        c3.to_server(&rc::request(true, name.as_bytes(), &opts));
        let r3 = reply_or_quiet(srv, &mut c3);
        trace.push(format!("WRQ #3 (late duplicate, fresh endpoint) -> {}", r3.as_ref().map(|(b, _)| rc::describe(b)).unwrap_or("none".into())));
        match r3.as_ref().map(|(b, _)| rc::decode(b)) {
            Some(Ok(RPacket::Error { code: 6, .. })) => {}
            other => {
                viol.push(("late-duplicate-wrq-not-refused".into(), format!("a WRQ for the name of a completed upload without --overwrite was answered with {:?}", other.map(|x| x.map(|p| format!("{:?}", p).chars().take(40).collect::<String>()))), facts(&[("overwrite", json!(false))])));
                c3.to_peer_guarded(&rc::error(0, "abort"));
            }
        }
        quiesce();
        if std::fs::read(&path).ok().as_deref() != Some(&body[..]) {
            viol.push(("completed-file-lost".into(), "after a late duplicate WRQ (no --overwrite) the completed upload no longer holds its content".into(), facts(&[("overwrite", json!(false)), ("effect", json!("late-duplicate"))])));
        }
        let _ = std::fs::remove_file(&path);
        return (viol, trace);
    }
    if !second_accepted {
        viol.push(("second-wrq-not-accepted".into(), format!("with --overwrite the second WRQ was not accepted: {:?}", r2.map(|(b, _)| rc::describe(&b))), facts(&[("overwrite", json!(true))])));
        c1.to_peer(&rc::error(0, "abort"));
        quiesce();
        let _ = std::fs::remove_file(&path);
        return (viol, trace);
    }
    let mut next = 1u16;
    let mut completed = false;
    let mut killed = false;
    for o in order {
        if *o == 0 {
            let (a, b) = if next == 1 { (0, 512) } else { (512, 700) };
            let _ = c1.sock.send_to(&rc::data(next, &body[a..b]), peer2.unwrap());
            let r = c1.recv_wait(BACKSTOP);
            trace.push(format!("DATA({next}) to transfer 2 -> {}", r.as_ref().map(|(b, _)| rc::describe(b)).unwrap_or("none".into())));
            if next == 2 {
                completed = matches!(r.as_ref().map(|(b, _)| rc::decode(b)), Some(Ok(RPacket::Ack(2))));
            }
            next += 1;
        } else if !cfg.single {
            // multi-port: transfer 1 still has its own port
            if kill_by_error {
                let _ = c1.sock.send_to(&rc::error(0, "stale"), peer1.unwrap());
                trace.push("ERROR to transfer 1".into());
                killed = true;
                // give the stale worker time to act: wait until only one worker (or none) is left
                let t0 = std::time::Instant::now();
                while task_count() > current_baseline() + if completed { 0 } else { 1 } && t0.elapsed() < BACKSTOP {
                    std::thread::yield_now();
                }
            }
        }
    }
    if natural_death && completed {
        // the stale transfer gives up after six 1-second timeouts
        let t0 = std::time::Instant::now();
        while workers_alive() && t0.elapsed() < Duration::from_secs(9) {
            std::thread::sleep(Duration::from_millis(50));
        }
        trace.push(format!("waited {:.1} s for the stale transfer to run out of retries", t0.elapsed().as_secs_f64()));
        killed = true;
    }
    if completed {
        let f = std::fs::read(&path).ok();
        if f.as_deref() != Some(&body[..]) {
            viol.push((
                "two-owner-completed-file-lost".into(),
                format!("through the real server: the retransmitted upload completed but the file is {} (stale transfer killed by ERROR: {killed})", if f.is_none() { "removed" } else { "altered" }),
                facts(&[("effect", json!(if f.is_none() { "removed" } else { "altered" })), ("after_stale_end", json!(true))]),
            ));
        }
    }
    // end the stale transfer so that the server becomes quiescent quickly
    // (only if it can still be open: a closed ephemeral port may belong to somebody else by now)
    if let Some(p1) = peer1 {
        if !killed && (workers_alive() || cfg.single) {
            let _ = c1.sock.send_to(&rc::error(0, "end"), p1);
        }
    }
    if !completed && workers_alive() {
        c1.to_peer(&rc::error(0, "end"));
    }
    quiesce();
    let _ = std::fs::remove_file(&path);
    (viol, trace)
}

/// A single upload through the real Server that fails after j blocks (peer ERROR, or silence with timeout=1), onto a
/// fresh name or — with --overwrite — onto an existing file.
fn e2_abort(srv: &Srv, cfg: &SrvCfg, existing: bool, j: usize, silence: bool, big_blk: bool) -> (Vec<(String, String, serde_json::Map<String, Value>)>, String) {
    let mut viol = vec![];
    let name = format!("c13_abort_{}", std::process::id());
    let path = format!("{}/{}", srv.recv_dir, name);
    let _ = std::fs::remove_file(&path);
    if existing {
        std::fs::write(&path, content(3000, 8)).unwrap();
    }
    let body = content(2000, 9);
    let desc = format!("upload onto {} name{}, {} after {j} block(s)", if existing { "an existing" } else { "a fresh" }, if big_blk { " with blksize 65500 requested" } else { "" }, if silence { "peer silence (timeout=1)" } else { "peer ERROR" });
    let mut c = Client::new(srv.addr);
    let mut opts: Vec<(String, String)> = if silence { vec![("timeout".into(), "1".into())] } else { vec![] };
    if big_blk {
        opts.push(("blksize".into(), "65500".into())); // answered with 65464
    }
    let bs = if big_blk { 65464 } else { 512 };
    let body = if big_blk { content(3 * 65464 + 10, 9) } else { body };
    c.to_server(&rc::request(true, name.as_bytes(), &opts));
    let first = c.recv_wait(BACKSTOP);
    if !matches!(first.as_ref().map(|(b, _)| rc::decode(b)), Some(Ok(RPacket::Ack(0))) | Some(Ok(RPacket::Oack(_)))) {
        viol.push(("e2-abort-not-accepted".into(), format!("{desc}: the WRQ was not accepted: {:?}", first.map(|(b, _)| rc::describe(&b))), facts(&[("existing", json!(existing))])));
        quiesce();
        let _ = std::fs::remove_file(&path);
        return (viol, desc);
    }
    // the handshake reply is sent BEFORE the listener spawns the transfer thread: wait until it has finished the request,
    // otherwise "no transfer thread alive" could simply mean "not started yet"
    barrier(srv);
    for k in 1..=j {
        c.to_peer(&rc::data(k as u16, &body[(k - 1) * bs..k * bs]));
        let _ = c.recv_wait(BACKSTOP);
    }
    if !silence {
        c.to_peer(&rc::error(0, "abort"));
    }
    let t0 = std::time::Instant::now();
    let limit = if silence { Duration::from_secs(19) } else { BACKSTOP };
    while workers_alive() && t0.elapsed() < limit {
        std::thread::sleep(Duration::from_millis(2));
    }
    if workers_alive() {
        viol.push(("e2-abort-not-ended".into(), format!("{desc}: the transfer is still alive after {:?}", limit), facts(&[("existing", json!(existing))])));
        c.to_peer_guarded(&rc::error(0, "end"));
        quiesce();
    }
    let f = std::fs::read(&path).ok();
    match (&f, cfg.keep) {
        (Some(_), false) => viol.push(("K1-partial-not-removed".into(), format!("through the real server, {desc}: clean-on-error is in force but the partial file is still there"), facts(&[("existing", json!(existing)), ("panic", json!(false))]))),
        (None, true) => viol.push(("K2-kept-file-missing".into(), format!("through the real server, {desc}: keep-on-error but the file was removed"), facts(&[("existing", json!(existing))]))),
        (Some(b), true) => {
            if !(b.len() <= j * bs && body[..b.len()] == b[..]) {
                viol.push(("K3-kept-not-prefix".into(), format!("through the real server, {desc}: the kept file ({} bytes) is not a prefix of the {} bytes sent", b.len(), j * bs), facts(&[("existing", json!(existing))])));
            }
        }
        (None, false) => {}
    }
    let _ = std::fs::remove_file(&path);
    (viol, desc)
}

pub fn e2_abort_cell(spec: &Value) -> Value {
    let cfg = SrvCfg::from_json(&spec["srv"]);
    let mut c = Counters::default();
    let srv = match if cfg.single { server_fresh(&cfg) } else { server_for(&cfg) } {
        Ok(s) => s,
        Err(e) => return json!({"machinery_error": format!("server start: {e}")}),
    };
    let silence = spec["silence"].as_bool().unwrap_or(false);
    let js: Vec<usize> = if silence { vec![1] } else { vec![0, 1, 2] };
    for existing in [false, true] {
        if existing && !cfg.overwrite {
            continue;
        }
        for &(j, big) in js.iter().map(|j| (*j, false)).chain(if silence { vec![] } else { vec![(1usize, true), (2, true)] }).collect::<Vec<_>>().iter() {
            let (viol, desc) = e2_abort(&srv, &cfg, existing, j, silence, big);
            c.executions += 1;
            c.states += 1;
            c.transitions += j as u64 + 2;
            c.nontrivial += 1;
            c.trace_hashes.insert(fnv64(format!("{desc}{}", cfg.key()).as_bytes()));
            if c.samples.is_empty() {
                c.samples.push(json!({"srv": cfg.brief(), "real_server_abort": desc}));
            }
            for (clause, what, f) in viol {
                c.violations.push(Violation { property: "C13".into(), clause, facts: f, what: format!("[{}] {}", cfg.brief(), what), replay: json!({"engine": "c13_e2_abort", "spec": spec}), weight: 60 + j as u64 });
            }
        }
    }
    if !quiesce() {
        c.machinery_errors.push("server not quiescent at the end of a C13 abort cell".into());
    }
    c.to_json()
}

pub fn e2_cell(spec: &Value) -> Value {
    let cfg = SrvCfg::from_json(&spec["srv"]);
    let mut c = Counters::default();
    let srv = match if cfg.single { server_fresh(&cfg) } else { server_for(&cfg) } {
        Ok(s) => s,
        Err(e) => return json!({"machinery_error": format!("server start: {e}")}),
    };
    // all interleavings of {DATA1, DATA2 to transfer 2} with {ERROR to transfer 1}
    let natural = spec["natural_death"].as_bool().unwrap_or(false);
    let orders: Vec<Vec<u8>> = if natural { vec![vec![0, 0]] } else { vec![vec![1, 0, 0], vec![0, 1, 0], vec![0, 0, 1], vec![0, 0]] };
    for o in &orders {
        let (viol, trace) = e2_history(&srv, &cfg, o, true, natural);
        c.executions += 1;
        c.states += 1;
        c.transitions += 2 + o.len() as u64;
        c.nontrivial += 1;
        c.trace_hashes.insert(fnv64(format!("{:?}{}", o, cfg.key()).as_bytes()));
        if c.samples.is_empty() {
            c.samples.push(json!({"srv": cfg.brief(), "history": trace}));
        }
        for (clause, what, f) in viol {
            c.violations.push(Violation { property: "C13".into(), clause, facts: f, what: format!("[{}] history {:?}: {}", cfg.brief(), trace, what), replay: json!({"engine": "c13_e2", "srv": cfg.to_json(), "order": o, "natural_death": natural}), weight: 50 + o.len() as u64 });
        }
    }
    c.trim_violations(2);
    c.to_json()
}

// ---------------------------------------------------------------- check

pub fn check(tier: Tier) -> Outcome {
    let p = ["C13"];
    let mut out = Outcome::new("C13", "fault_enumeration");
    // the wall-clock histories through the real Server run concurrently with the simulated parts
    // (3) E2
    let mut cells_e = vec![];
    for single in [false, true] {
        for overwrite in [true, false] {
            let mut s = SrvCfg::basic();
            s.single = single;
            s.overwrite = overwrite;
            if single && overwrite {
                // the stale transfer cannot be reached any more (its routing entry was replaced): it can only die of
                // retry exhaustion, which takes 6 s of real time with timeout=1 — one such history per run
                cells_e.push(json!({"srv": s.to_json(), "natural_death": true}));
            } else {
                cells_e.push(json!({"srv": s.to_json()}));
                if !overwrite {
                    // distinct send/receive directories (all flags given / send directory by fallback): the existence
                    // check must look where the upload is stored
                    for rd_only in [false, true] {
                        let mut s2 = s.clone();
                        s2.distinct = true;
                        s2.rd_only = rd_only;
                        cells_e.push(json!({"srv": s2.to_json()}));
                    }
                }
                if overwrite && tier == Tier::Thorough {
                    cells_e.push(json!({"srv": s.to_json(), "natural_death": true}));
                }
            }
        }
    }
    let ne = cells_e.len();
    let h_e2 = std::thread::spawn(move || run_cells("c13_e2", cells_e, &crate::pool_opts(tier)));
    // (3b) single failing uploads through the real Server (its accept logic decides the clean flag and the target path)
    let mut cells_ab = vec![];
    for single in [false, true] {
        for overwrite in [false, true] {
            for keep in [false, true] {
                let mut s = SrvCfg::basic();
                s.single = single;
                s.overwrite = overwrite;
                s.keep = keep;
                cells_ab.push(json!({"srv": s.to_json(), "silence": false}));
                if overwrite && !keep {
                    cells_ab.push(json!({"srv": s.to_json(), "silence": true}));
                }
            }
        }
    }
    let nab = cells_ab.len();
    let h_ab = std::thread::spawn(move || run_cells("c13_e2_abort", cells_ab, &crate::pool_opts(tier)));
    // (1) abort points x cause x {clean, keep}
    let mut cells_a = vec![];
    let mut cells_f = vec![];
    let blk = 8usize;
    for ws in 1..=3u16 {
        for n in 1..=5usize {
            let len = (n - 1) * blk + 3;
            for clean in [true, false] {
                let mut x = base_cfg(Role::Receiver, len, blk, ws);
                x.clean = clean;
                x.alpha = 3;
                for k in 0..=n {
                    let mut a = x.clone();
                    a.error_at = Some(k);
                    cells_a.push(cell_spec(&a, 0, 1_000_000, &p));
                    let mut b = x.clone();
                    b.silence_after = Some(k);
                    cells_a.push(cell_spec(&b, 0, 1_000_000, &p));
                    if tier == Tier::Thorough || (n == 3 && ws <= 2) {
                        // one adversarial deviation (duplicate, gap, stray, truncated datagram ...) before the abort
                        let mut a2 = a.clone();
                        a2.alpha = 0;
                        cells_a.push(cell_spec(&a2, 1, 1_000_000, &p));
                    }
                }
                // write error after j bytes may be written
                for j in 0..n {
                    let mut s = cell_spec(&x, 0, 1_000_000, &p);
                    s["fsize"] = json!((j * blk) as u64);
                    cells_f.push(s);
                    if j > 0 {
                        let mut s2 = cell_spec(&x, 0, 1_000_000, &p);
                        s2["fsize"] = json!((j * blk) as u64 - 3); // limit inside a block
                        cells_f.push(s2);
                    }
                }
            }
        }
    }
    let (na, nf) = (cells_a.len(), cells_f.len());
    let res = run_cells("modea", cells_a, &crate::pool_opts(tier));
    out.absorb(res, na);
    let res = run_cells("c13_fsize", cells_f, &crate::pool_opts(tier));
    out.absorb(res, nf);
    // (2) two workers on one path
    let mut cells_t = vec![];
    for ws in [1u16, 2] {
        for n_blocks in if tier == Tier::Quick { vec![2usize, 3] } else { vec![1usize, 2, 3, 4] } {
            for clean in [true, false] {
                for w1_data in 0..=n_blocks.min(2) {
                    for w1_silence in [false, true] {
                        let c = TwoCfg { blk, ws, n_blocks, clean, w1_data, w1_silence };
                        cells_t.push(json!({"cfg": c.to_json()}));
                    }
                }
            }
        }
    }
    let nt = cells_t.len();
    let res = run_cells("c13_two", cells_t, &crate::pool_opts(tier));
    out.absorb(res, nt);
    if let Ok(res) = h_e2.join() {
        out.absorb(res, ne);
    }
    if let Ok(res) = h_ab.join() {
        out.absorb(res, nab);
    }
    out.rule = "(1) E1 Mode A, real receiving Worker: every abort point k = 0..n of uploads of n = 1..5 blocks x windowsize 1..3 x cause {peer ERROR at answer k, peer silence from answer k (6 timeouts), write error injected with RLIMIT_FSIZE at every block boundary and inside a block} x {clean-on-error, keep-on-error}; oracle on the tree after the worker thread has been joined: failed+clean => file absent, failed+keep => file is a prefix of the in-order payloads, completed => file intact. (2) two real Workers on one path (stale upload accepted first, then a fresh one that completes): all interleavings of the fresh worker's DATA steps with the stale worker's steps (0..2 DATA, then ERROR or six timeouts), clean and keep; oracle: from the fresh upload's completion on, at every observation point, the file exists and equals its content. (3) the same history through the real Server (retransmitted WRQ from one endpoint) in overwrite and no-overwrite mode (the latter also with distinct send/receive directories, and with a late duplicate WRQ after completion), both port modes; (3b) single uploads through the real Server that fail after j = 0..2 blocks by peer ERROR (and by silence with timeout=1), onto a fresh name and onto an existing file (--overwrite), x {clean, keep} x port modes. non-trivial = executions with a distinct history.".into();
    out.assumptions = vec![
        "the check-then-create window between file.exists() in the listener and File::create in the freshly spawned worker is not scheduled by the harness (each worker has created the file before the next starts)".into(),
        "both uploads of a name carry the same content (a retransmitted request), so only clean-up, not concurrent writing, can alter the file".into(),
    ];
    out
}

pub fn replay_two(v: &Value) -> String {
    let c = TwoCfg::from_json(&v["cfg"]);
    let choices: Vec<u16> = v["choices"].as_array().map(|a| a.iter().map(|x| x.as_u64().unwrap_or(0) as u16).collect()).unwrap_or_default();
    let r = run_two(&c, &choices);
    let r2 = run_two(&c, &choices);
    format!("{}\nhistory: {:#?}\nviolations: {:?}\nsecond replay identical: {}", c.brief(), r.trace, r.viol.iter().map(|x| &x.1).collect::<Vec<_>>(), r.hash == r2.hash)
}

pub fn replay_e2(v: &Value) -> String {
    let cfg = SrvCfg::from_json(&v["srv"]);
    let srv = match server_for(&cfg) {
        Ok(s) => s,
        Err(e) => return format!("server start failed: {e}"),
    };
    let order: Vec<u8> = v["order"].as_array().unwrap().iter().map(|x| x.as_u64().unwrap() as u8).collect();
    let (viol, trace) = e2_history(&srv, &cfg, &order, true, v["natural_death"].as_bool().unwrap_or(false));
    format!("history: {:#?}\nviolations: {:?}", trace, viol.iter().map(|x| &x.1).collect::<Vec<_>>())
}
